#!/usr/bin/env python3
"""keep_mutation.py <wt-id> <seed-dir-name> <property> <caught_by> "<needs>" : copies a confirmed seeded change
from /tmp/wt/<wt-id>/MUTATION into /verif/seeded/<seed-dir-name>/ and writes meta.json."""
import sys, os, shutil, json, subprocess, re
wt, name, prop, caught, needs = sys.argv[1:6]
src = f"/tmp/wt/{wt}/MUTATION"
dst = f"/verif/seeded/{name}"
os.makedirs(dst, exist_ok=True)
shutil.copy(f"{src}/patch.diff", f"{dst}/patch.diff")
shutil.copy(f"{src}/seeded_demo.rs", f"{dst}/seeded_demo.rs")
if os.path.exists(f"{src}/notes.md"):
    shutil.copy(f"{src}/notes.md", f"{dst}/notes.md")
confirm = open(f"{src}/confirm.log").read() if os.path.exists(f"{src}/confirm.log") else ""
def section(title):
    m = re.search(r"== " + re.escape(title) + r"\n(.*?)(?=\n== |\Z)", confirm, re.S)
    return m.group(1) if m else ""
summary = {
    "demo_with_change": "FAILED" if "test result: FAILED" in section("demo WITH change") else ("ok" if "test result: ok" in section("demo WITH change") else "?"),
    "demo_without_change": "ok" if "test result: ok" in section("demo WITHOUT change") and "FAILED" not in section("demo WITHOUT change") else "?",
    "suite_with_change": re.findall(r"test result: .*", section("suite WITH change")),
}
meta = {
    "property": prop,
    "needs_to_manifest": needs,
    "origin": "written by an independent sub-agent that was given only the property text and a scratch worktree",
    "confirmed_by_me": summary,
    "ran": [
        f"in /tmp/wt/{wt} (scratch worktree, private target dir): cargo test --offline --test seeded_demo with and without patch.diff; cargo test --workspace --no-fail-fast --offline with patch.diff",
        f"git -C /repo apply seeded/{name}/patch.diff; {caught}; git -C /repo checkout -- .",
    ],
    "caught_by": caught,
}
json.dump(meta, open(f"{dst}/meta.json", "w"), indent=1)
print("kept", dst, summary["demo_with_change"], summary["demo_without_change"])
