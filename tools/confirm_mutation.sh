#!/bin/bash
# confirm_mutation.sh <id-dir under /tmp/wt> : confirms (1) demo fails with the change, (2) demo passes without,
# (3) existing suite passes with the change. Writes /tmp/wt/<id>/MUTATION/confirm.log
set -u
W=/tmp/wt/$1
cd $W || exit 2
export CARGO_TARGET_DIR=$W/target CARGO_NET_OFFLINE=true
LOG=$W/MUTATION/confirm.log
: > $LOG
git stash list >/dev/null
# state: change applied + demo present (as left by the agent)
echo "== demo WITH change" >> $LOG
cargo test --offline --test seeded_demo >> $LOG 2>&1; echo "exit=$?" >> $LOG
echo "== suite WITH change" >> $LOG
flock /tmp/wt/suite.lock cargo test --workspace --no-fail-fast --offline 2>&1 | grep -E "^test result|FAILED|failed|^error" >> $LOG; 
# revert the source change only
git apply -R MUTATION/patch.diff >> $LOG 2>&1 || echo "REVERT FAILED" >> $LOG
echo "== demo WITHOUT change" >> $LOG
cargo test --offline --test seeded_demo >> $LOG 2>&1; echo "exit=$?" >> $LOG
git apply MUTATION/patch.diff >> $LOG 2>&1
echo "== done" >> $LOG
