#!/usr/bin/env python3
"""Sensitivity sweep: applies hand-written mutations to /repo one at a time, runs the named quick check,
records whether it reported a VIOLATION, and reverts. Writes /verif/seeded/own-mutants/RESULTS.md.

    tools/mutants.py            run all
    tools/mutants.py C05 C18    run only mutants whose check is listed

/repo's working tree must be clean. Nothing is ever committed there.
"""
import subprocess, sys, time, json, os

MUTANTS = [
 # (name, check, file, old, new, note)
 ("c01-u8-threshold", "C01", "src/mem_store/integers.rs", "let mut column = if min >= 0 && max <= u8::MAX as i64 {", "let mut column = if min >= 0 && max <= 256 {", "u8 encoding chosen for max = 256"),
 ("c01-hex-case-swapped", "C01", "src/mem_store/strings.rs", "vec![CodecOp::UnhexpackStrings(uhex, total_bytes)],", "vec![CodecOp::UnhexpackStrings(lhex, total_bytes)],", "upper/lower hex flag swapped"),
 ("c01-pco-fp32-any", "C01", "src/mem_store/column.rs", "if x.iter().all(|f| (f.0 as f32) as f64 == f.0) {", "if x.iter().any(|f| (f.0 as f32) as f64 == f.0) {", "fp32 path taken when only some values are f32-exact"),
 ("c01-sparse-padding", "C01", "src/ingest/buffer.rs", "                        buffered_col.push_val(RawVal::Int(f));\n                        next_i = i + 1;", "                        buffered_col.push_val(RawVal::Int(f));\n                        next_i = i;", "sparse int padding off by one"),
 ("c02-merge-adjacent", "C02", "src/engine/execution/query_task.rs", "&& prev.1.scanned_range.end == curr.scanned_range.start", "&& prev.1.scanned_range.end <= curr.scanned_range.start", "non-adjacent partial results merged"),
 ("c03-encode-int-sign", "C03", "src/mem_store/codec.rs", "x.saturating_sub(y)", "x.saturating_add(y)", "constant translated with the wrong sign"),
 ("c03-isnull-const", "C03", "src/engine/planning/query_plan.rs", "                                planner.is_null(plan.nullable_any()?).into(),", "                                planner.is_not_null(plan.nullable_any()?).into(),", "IS NULL compiled as IS NOT NULL for nullable columns"),
 ("c04-min-merged-as-max", "C04", "src/engine/operators/merge_aggregate.rs", "            Aggregator::MinI64 => null_coalesce(a, b, std::cmp::min(a, b)),\n            _ => Err(fatal!(\"Unsupported aggregator for i64", "            Aggregator::MinI64 => null_coalesce(a, b, std::cmp::max(a, b)),\n            _ => Err(fatal!(\"Unsupported aggregator for i64", "MIN partials combined with max"),
 ("c04-count-merge", "C04", "src/engine/operators/merge_aggregate.rs", "                    Ok(a + b)\n", "                    Ok(a)\n", "COUNT partials: right side dropped"),
 ("c05-offset-slice", "C05", "src/engine/execution/query_task.rs", "            for i in offset..(count + offset) {", "            for i in offset..count.max(offset) {", "row view sliced offset..count"),
 ("c05-desc-limit", "C05", "src/engine/planning/query.rs", "            let indices = if limit > 0\n                && limit < partition_range.len() / 2", "            let indices = if limit > 0\n                && limit <= partition_range.len()", "top-n used for every limit (behaviour-preserving: top-n with a limit up to the partition length returns the same rows; expected MISSED)"),
 ("c06-sum-merge-wrapping", "C06", "src/engine/operators/merge_aggregate.rs", "                    a.checked_add(b).ok_or(QueryError::Overflow)", "                    Ok(a.wrapping_add(b))", "partial sums merged with wrapping add"),
 ("c07-compact-offset", "C07", "src/scheduler/inner_locustdb.rs", "        table.compact(id, range.start, columns, parts);", "        table.compact(id, 0, columns, parts);", "merged partition registered at offset 0"),
 ("c07-skip-null-column", "C07", "src/scheduler/inner_locustdb.rs", "                    Arc::new(Column::null(column, len)) as Arc<dyn DataSource>", "                    Arc::new(Column::null(column, len.saturating_sub(1))) as Arc<dyn DataSource>", "absent column padded one row short"),
 ("c08-cursor-start", "C08", "src/scheduler/inner_locustdb.rs", "            storage.persist_metastore(unflushed_wal_ids.end, &mut tracer);", "            storage.persist_metastore(unflushed_wal_ids.start, &mut tracer);", "catalogue cursor not advanced"),
 ("c08-offset-restore", "C08", "src/mem_store/table.rs", "            .fetch_max(md.offset + md.len, std::sync::atomic::Ordering::SeqCst);", "            .fetch_max(md.offset, std::sync::atomic::Ordering::SeqCst);", "next partition offset restored too low"),
 ("c09-delete-wal-before-meta", "C09", "src/scheduler/inner_locustdb.rs", "            storage.persist_metastore(unflushed_wal_ids.end, &mut tracer);", "            storage.delete_wal_segments(unflushed_wal_ids.clone(), &mut SimpleTracer::default());\n            storage.persist_metastore(unflushed_wal_ids.end, &mut tracer);", "WAL segments deleted before the catalogue is persisted (second delete then fails)"),
 ("c09-rename-before-sync", "C09", "src/disk_store/file_writer.rs", "        let mut file = File::create(&tmp_path)?;", "        let mut file = File::create(path)?;", "blob written in place instead of temp + rename"),
 ("c12-drop-fail-with", "C12", "src/engine/execution/query_task.rs", "                Err(error) => {\n                    self.fail_with(error);\n                    return;\n                }\n            };\n            colstack.push(cols);", "                Err(_error) => {\n                    return;\n                }\n            };\n            colstack.push(cols);", "a partition whose plan fails no longer answers the caller: the answer is lost (Canceled). C11 accepts Canceled as an error value; C12 (never a lost answer) is the check that owns this"),
 ("c12-alias-dropped", "C12", "src/syntax/parser.rs", "                name: strip_quotes(&alias.to_string()),", "                name: strip_quotes(&format!(\"{}\", expr)),", "alias ignored in the output name"),
 ("c13-new-names-negated", "C13", "src/mem_store/table.rs", "            .filter(|col| !column_names.contains(*col))", "            .filter(|col| column_names.contains(*col))", "new-column filter negated"),
 ("c14-checksum-prefix", "C14", "src/disk_store/file_writer.rs", "        if checksum != actual_checksum.as_slice() {", "        if checksum[..16] != actual_checksum.as_slice()[..16] {", "only half of the checksum compared"),
 ("c14-length-ge", "C14", "src/disk_store/file_writer.rs", "        if data.len() != 8 + 8 + 32 + data_len {", "        if data.len() < 8 + 8 + 32 + data_len {", "longer files accepted"),
 ("c15-lower-bound-excluded", "C15", "src/disk_store/meta_store.rs", "    pub fn subpartition_key(&self, column_name: &str) -> Option<String> {\n        let (_, subpartition_index) = self\n            .subpartitions_by_last_column\n            .lower_bound(std::ops::Bound::Included(column_name))", "    pub fn subpartition_key(&self, column_name: &str) -> Option<String> {\n        let (_, subpartition_index) = self\n            .subpartitions_by_last_column\n            .lower_bound(std::ops::Bound::Excluded(column_name))", "last column of a file routed to the next file"),
 ("c16-i8-boundary", "C16", "locustdb-serialization/src/api.rs", "                    && delta_stats.max_delta <= i8::MAX as i128\n", "                    && delta_stats.max_delta <= i8::MAX as i128 + 1\n", "delta 128 encoded as i8"),
 ("c16-xor-mask", "C16", "locustdb-compression-utils/src/xor_float/double.rs", "            u64::MAX - ((1 << (52 - mantissa)) - 1)", "            u64::MAX - ((1 << (53 - mantissa).min(63)) - 1)", "mantissa mask one bit too wide"),
 ("c17-mixed-float-null", "C17", "src/server/mod.rs", "            } else if type_signature == 8 || type_signature == 12 {", "            } else if type_signature == 8 {", "float+NULL mixed columns sent as generic mixed (behaviour-preserving: the generic encoding carries the same values; expected MISSED)"),
 ("c17-null-json", "C17", "src/server/mod.rs", "                    Value::Null => json!(null),\n                    Value::Float(f) => json!(f.0),", "                    Value::Null => json!(0),\n                    Value::Float(f) => json!(f.0),", "NULL rendered as 0 in /query_cols"),
 ("c18-skip-orphans", "C18", "src/scheduler/inner_locustdb.rs", "            storage.delete_orphaned_partitions(partitions_to_delete, &mut tracer);", "            let _ = &partitions_to_delete;", "merged-away partition files never deleted"),
 ("c18-wal-size-not-reset", "C18", "src/scheduler/inner_locustdb.rs", "            *wal_size = 0;\n            wal_condvar.notify_all();\n        }\n        tracer.end_span(span_freeze_buffers);", "            wal_condvar.notify_all();\n        }\n        tracer.end_span(span_freeze_buffers);", "accounted WAL size never reset"),
 ("c10-compact-two-locks", "C10", "src/mem_store/table.rs", "            for old_id in old_partitions {\n                partitions.remove(old_id);\n            }\n            partitions.insert(id, Arc::new(partition));", "            for old_id in old_partitions {\n                partitions.remove(old_id);\n            }\n            drop(partitions);\n            std::thread::yield_now();\n            let mut partitions = self.partitions.write().unwrap();\n            partitions.insert(id, Arc::new(partition));", "compaction swap done under two separate write locks"),
 ("c17-full-precision-negated", "C17", "src/server/mod.rs", "                                encoding_opts.full_precision_cols.contains(&colname);", "                                !encoding_opts.full_precision_cols.contains(&colname);", "full_precision_cols applied to the other columns"),
 ("c05-merge-desc-ignored", "C05", "src/engine/execution/batch_merging.rs", "                qp.merge(left, right, limit, desc)\n", "                qp.merge(left, right, limit, false)\n", "single-key merge of sorted partitions ignores DESC"),
 ("c04-summation-preserving-add", "C04", "src/mem_store/codec.rs", "            CodecOp::Add(_, x) => *x == 0,", "            CodecOp::Add(_, _) => true,", "offset-encoded columns summed without decoding"),
 ("c05-order-preserving-delta", "C05", "src/mem_store/codec.rs", "    fn is_order_preserving(&self) -> bool {\n        match self {\n            CodecOp::Nullable => false,\n            CodecOp::Add(_, _) => true,\n            CodecOp::Delta(_) => false,", "    fn is_order_preserving(&self) -> bool {\n        match self {\n            CodecOp::Nullable => false,\n            CodecOp::Add(_, _) => true,\n            CodecOp::Delta(_) => true,", "delta marked order-preserving (behaviour-preserving: column reads always undo Delta before any operator sees the data, probed with ORDER BY id DESC on a delta-encoded partition; expected MISSED)"),
 ("c15-sanitize-no-trim", "C15", "src/disk_store/storage.rs", "    name = name.trim_start_matches(['-', '.']).to_string();\n", "", "leading dots kept in table directory names"),
 ("c15-hash-of-sanitized", "C15", "src/disk_store/storage.rs", "        hasher.update(table_name.as_bytes());", "        hasher.update(name.as_bytes());", "directory hash computed from the sanitised name"),
]


def sh(cmd, **kw):
    return subprocess.run(cmd, shell=True, capture_output=True, text=True, **kw)


def main():
    only = set(sys.argv[1:])
    if sh("git -C /repo status --porcelain").stdout.strip():
        print("/repo working tree is not clean"); sys.exit(2)
    os.makedirs("/verif/seeded/own-mutants", exist_ok=True)
    store = "/verif/seeded/own-mutants/results.json"
    saved = json.load(open(store)) if os.path.exists(store) else {}
    results = []
    for name, check, path, old, new, note in MUTANTS:
        if only and check not in only and name not in only:
            continue
        full = os.path.join("/repo", path)
        src = open(full).read()
        if src.count(old) != 1:
            results.append((name, check, "SKIPPED (pattern occurs %d times)" % src.count(old), 0, note))
            print(results[-1]); continue
        open(full, "w").write(src.replace(old, new))
        t0 = time.time()
        # a run against a mutated tree must not replace the committed evidence of the unchanged tree
        ev = "/verif/evidence/%s.json" % check
        saved = open(ev).read() if os.path.exists(ev) else None
        r = sh("cd /verif && ./check %s quick" % check, timeout=3600)
        if saved is not None:
            open(ev, "w").write(saved)
        dt = time.time() - t0
        sh("git -C /repo checkout -- .")
        viol = [l for l in r.stdout.splitlines() if l.startswith("VIOLATION")]
        if r.returncode == 1 and viol:
            first = ""
            try:
                rp = viol[0].split("replay=")[1].strip()
                v = json.load(open(rp))
                first = "[%s/%s] %s" % (v.get("sub"), v["observed"]["kind"], v["observed"]["message"])
            except Exception as e:
                first = "(no replay detail: %s)" % e
            verdict = "CAUGHT (%d violation lines): %s" % (len(viol), " ".join(first.split())[:200])
        elif r.returncode == 2:
            err = [l for l in (r.stderr + r.stdout).splitlines() if l.startswith("error") or "inconclusive" in l]
            verdict = "NO VERDICT (exit 2): " + (err[0][:160] if err else "")
        else:
            verdict = "MISSED (exit %d)" % r.returncode
        results.append((name, check, verdict, dt, note))
        print(results[-1], flush=True)
        saved[name] = {"check": check, "verdict": verdict, "seconds": round(dt), "change": note, "file": path}
        json.dump(saved, open(store, "w"), indent=1)
        with open("/verif/seeded/own-mutants/RESULTS.md", "w") as f:
            f.write("# Sensitivity sweep with hand-written mutations (tools/mutants.py)\n\nEach mutation is applied to /repo's working tree, the named quick check is run, and the change is reverted.\nThe table is regenerated from results.json (last verdict per mutant).\n\n| mutant | check | change | verdict | time |\n|---|---|---|---|---|\n")
            for n, c, _p, _o, _n2, _no in MUTANTS:
                if n in saved:
                    r = saved[n]
                    f.write("| %s | %s | %s | %s | %d s |\n" % (n, r["check"], r["change"], r["verdict"].replace("|", "/"), r["seconds"]))
    sh("git -C /repo checkout -- .")


if __name__ == "__main__":
    main()
