import json,sys
pid,wt,avoid=sys.argv[1],sys.argv[2],sys.argv[3]
for l in open('/verif/properties.jsonl'):
    d=json.loads(l)
    if d['id']==pid: break
print(f"""You are helping evaluate a test-suite for the open-source Rust project cswinter/LocustDB (an in-memory/on-disk columnar analytics database). You work ONLY inside the scratch git worktree {wt} (never touch /repo or /verif, do not read /verif). A build cache is already at {wt}/target: always run cargo with `CARGO_TARGET_DIR={wt}/target CARGO_NET_OFFLINE=true cargo ... --offline` from inside {wt} (no network exists). The pinned toolchain is picked up from rust-toolchain automatically.

The project should satisfy this semantic property:

{json.dumps(d, indent=1)}

Your job: write ONE small, realistic source change to the LocustDB sources under {wt} (src/ or locustdb-serialization/ etc., not tests) — the kind of slip a maintainer could plausibly make in a refactor — that BREAKS this property while (a) still compiling, and (b) still passing the existing test suite. The break must need something specific to manifest — a multi-step sequence of operations, a crash or fault at a particular point, an unusual input/size/boundary, or two cooperating sites that each look fine alone — NOT something ordinary use would expose at once. {avoid}

Deliverables, all under {wt}:
1. The source change applied in the worktree, and saved as {wt}/MUTATION/patch.diff (`git diff -- . ':!tests/seeded_demo.rs' ':!MUTATION' > MUTATION/patch.diff`; it must contain only the source change, not the demo).
2. A demonstration {wt}/tests/seeded_demo.rs (an integration test using the public `locustdb` crate API; look at tests/ingestion_test.rs and tests/query_tests.rs for how to create a LocustDB with Options (set `metrics_table_name: None`), ingest, `force_flush`, restart (drop and reopen on the same db_path), and query) that FAILS with the change and PASSES without it. Use tempfile/tempdirs the way the existing tests do. Do not use fixed network ports. Note: do not wrap `db.ingest_efficient(...)` in futures::executor::block_on on a reopened database; look at how the existing tests ingest (e.g. `db.ingest_efficient` from within a tokio runtime or the helper functions the tests use).
3. {wt}/MUTATION/notes.md: what the change is, which clause of the property it breaks, and what exactly is needed for it to manifest.

Verify yourself: `cargo test --offline --test seeded_demo` fails with the change; after `git apply -R MUTATION/patch.diff` it passes; re-apply the patch afterwards (leave the worktree with the change applied and the demo present). Also run the existing lib unit tests and tests/query_tests.rs with the change (`cargo test --offline --lib` and `cargo test --offline --test query_tests`) to confirm they pass; do NOT run tests/ingestion_test.rs (it binds fixed ports and collides with other work; I will run it myself). Be economical: a full rebuild of the crate takes ~2-3 minutes, so make few build iterations. You have about 25 minutes of wall-clock; prefer a simple, solid change over a clever fragile one. Finish by reporting in 5 lines: the change, what it needs to manifest, and the demo results with/without.""")
