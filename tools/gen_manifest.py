#!/usr/bin/env python3
"""Writes /verif/MANIFEST.json from the table below (kept in one place so it stays consistent)."""
import json, os, subprocess
ROOT = os.path.dirname(os.path.dirname(os.path.abspath(__file__)))

CHECKS = {
 # id: (level category, level text, design ref, level note, technique)
 "C01": ("exploration",
         "Generated tables covering every content class, null pattern and batch representation named in the property, ingested through the native, wire and CSV paths and compared cell by cell (bit-exact) with an independent model before flush, after flush and after reopen/evict. Sampling, not proof: bounded by case count and table size.",
         "DESIGN.md 4 C01", "Trusts the harness's own model of a batch (ColRep::cells) and the public client types; type-mixing columns judged by the documented degradation only.",
         "property-based testing (proptest) against a reference model; round-trip oracle"),
 "C03": ("exploration",
         "Generated tables and predicate trees (depth <= 3, constants drawn inside, at the edges of and outside each column's range and encoding, strings present in / absent from the dictionary) judged by an independent three-valued-logic evaluator; rows must match exactly and in order. Classes the unchanged engine gets wrong are listed as known findings, excluded by construction and counted.",
         "DESIGN.md 4 C03", "Reference evaluator (eval.rs) is the trusted base; int-vs-float compares convert the int to f64; queries whose AND/OR sees a NULL operand are not judged while KF-connective-null is open.",
         "property-based testing (proptest) with a reference evaluator (differential oracle)"),
 "C05": ("exploration",
         "Generated tables (1-5 partitions), key lists of 1-3 columns/expressions with mixed directions, limits and offsets in 0..rows+2 weighted around half the partition length; judged in both directions by a validity predicate (length, key tuple per position, rows distinct and genuine, cells equal the model; ingestion order without ORDER BY).",
         "DESIGN.md 4 C05", "Reference order from eval.rs; ties may permute; shapes listed as known findings (expression keys under streaming, multi-key with NULL leading key, nullable top-n, key Null-typed in a partition) are excluded by construction and counted.",
         "property-based testing (proptest) with a validity-predicate oracle over a reference order"),
 "C04": ("exploration",
         "Generated tables (1-5 partitions) and select lists mixing 0-3 grouping expressions with subsets of count/sum/min/max/avg over int and float columns and an optional WHERE, compared as a multiset of group rows with a reference group-by (ints exact, float sums within the reordering tolerance); row and column views must agree. The unchanged engine fails large parts of this space (multi-key grouping, NULL keys across partitions, streaming): those classes are listed as known findings, excluded by construction and counted, so the judged lane is mainly 0/1-key grouping.",
         "DESIGN.md 4 C04", "Reference group-by in eval.rs; AVG(int) is the integer quotient; COUNT(col) = NULL accepted where 0 is expected while KF-count-all-null is open.",
         "property-based testing (proptest) with a reference group-by (differential oracle, multiset comparison)"),
 "C06": ("exploration",
         "Generated int columns at the edges of u8/u16/u32/i64 and their offset encodings, expression trees of depth <= 3 with + - * / % per row and under SUM (ungrouped and grouped, 1-5 partitions), judged against i128 arithmetic: exact where every step is representable, Overflow where the exact value leaves i64 or a divisor is 0, either where only an intermediate overflows.",
         "DESIGN.md 4 C06", "i128 reference; queries in which a value equals 2^63-1 (the reserved NULL marker, outside the property's domain) are not judged; SUM may fail whenever the sum of absolute values exceeds i64.",
         "property-based testing (proptest) with an exact-arithmetic reference (i128)"),
 "C02": ("exploration",
         "Metamorphic: one generated logical table is realised under two independently drawn physical layouts (batch split, flush points, combine factor, lz4, sub-partition size, batch_size, threads, memory/disk/reopened/evicted) and queried with filter, order/limit and aggregate queries; both realisations must give the same outcome class and both are anchored to the reference evaluator, so `equally wrong` does not pass.",
         "DESIGN.md 4 C02", "Same trusted base as C03/C04/C05; query shapes that are known findings under either layout are excluded and counted.",
         "property-based testing (proptest), metamorphic relation between two physical realisations anchored to a reference evaluator"),
 "C07": ("exploration",
         "Model-based histories over ingest / force_flush / evict_cache / restart on an on-disk database with combine factors that compact 1..k partitions at every flush; after every step every table is read back in full (SELECT *, explicit columns, count and a filter probe) and compared with the model of acknowledged batches, so any maintenance step that changes content is caught at the step that caused it.",
         "DESIGN.md 4 C07", "Model = concatenation of acknowledged batches (model.rs); compaction is observed through the compact.begin sync point for the non-triviality count only.",
         "model-based (stateful) property-based testing with proptest: vec(op) interpreted against the database and a reference model"),
 "C08": ("exploration",
         "Model-based histories over ingest(any subset of 1-3 tables) / force_flush / restart with small max_wal_files / max_wal_size_bytes (background flushes fire, ingestion may wait) and io_threads 1/4; after every restart, at the end and after one extra final restart the table list, each table's column list and all rows in order must equal the model of acknowledged requests: nothing lost, nothing twice.",
         "DESIGN.md 4 C08", "Clean restart = drop, wait for the old instance's flush thread to exit (sync point walthread.exit), reopen; in-flight background flushes are waited out before the handle is dropped.",
         "model-based (stateful) property-based testing with proptest against a reference model"),
 "C13": ("exploration",
         "Model-based histories of batches with arbitrary column subsets from an adversarial name pool (case pairs, non-ASCII, > 64 bytes, first/last in sort order, prefixes) over 1-3 tables, interleaved with flush/compaction/restart; after every step SELECT *, the per-table column catalogue and the table catalogue must list every name ever ingested exactly once and every cell must equal the model (NULL where a batch did not mention the column); after every restart and at the end each column is also read on its own and split by IS NULL / IS NOT NULL, and LocustDB::search_column_names is compared with the model; a quarter of the histories use a pool of even-length hex names in lower, upper and mixed case (the catalogue table's own string codec).",
         "DESIGN.md 4 C13", "Column names containing a double quote are not generated; each name keeps one value type.",
         "model-based (stateful) property-based testing with proptest against a reference model"),
 "C18": ("exploration",
         "Histories of ingest / force_flush (and restart) under every compaction factor, sub-partition size, io_threads and wal_flush_compaction_threads, plus a family where max_wal_size_bytes is tiny so ingestion must wait for the background flush. After each completed force_flush the recursive directory listing must equal {meta} plus exactly the partition files the catalogue names, the accounted WAL size must be 0 and no WAL id may be unflushed; every ingestion must return within the deadline.",
         "DESIGN.md 4 C18", "Catalogue and WAL accounting are read through hook H4 accessors; file names are computed with the crate's own helpers re-exported by hook H3; observations that overlap a background flush are retried.",
         "model-based property-based testing with proptest; validity predicate over the directory listing (invariant oracle)"),
 "C11": ("exploration",
         "Generated request sequences mixing valid requests (queries, ingestion, force_flush, table_stats, mem_tree, restart) with a catalogue of failing ones (parse errors, type errors, unsupported constructs, overflow, unknown table, LIMIT/OFFSET edge cases, invalid regex, constant-only select items, queries that panic inside the engine), issued from 1-3 client threads against 1-4 workers, memory-only and on disk. Every call must return within the deadline; after every request a canary (model-checked counts, a tiny ingest, table_stats) must succeed, and at the end workers+1 concurrent queries, an ingest and a force_flush must complete.",
         "DESIGN.md 4 C11", "Schedules are whatever the OS produces for the client threads (no schedule control): interleavings inside the engine are sampled, not enumerated. A hang is judged by the call deadline plus a process-quiescence test.",
         "property-based testing (proptest) over request sequences with fault-style inputs; canary invariant oracle"),
 "C12": ("exploration",
         "Generated query strings against a small fixed database (a three-partition table and a single-partition copy): statements that are well typed for it (so that about a fifth of all statements succeed and the result shape is judged: repeated / aliased / constant / absent select items, aggregates, ORDER BY, LIMIT / OFFSET windows), grammar-generated statements of the supported subset (random nesting, three quoting styles, aliases, numeric literal forms incl. beyond u64), a catalogue of unsupported constructs the SQL parser accepts, and token- and byte-level mutations of valid statements. The call must return (no caller panic, no hang, no Canceled); an Ok result must have one column per select item in select-list order under the written name or alias (derived with the SQL parser), equally long columns, a row view describing the same cells as the column view, at most LIMIT rows; an unknown table must give an error.",
         "DESIGN.md 4 C12", "The expected names are derived by parsing the text with the same SQL parser crate the engine uses (what the text says), not from the engine's own conversion code; an engine-internal panic that reaches the caller as an error value counts as an error value.",
         "grammar-based and mutation-based fuzzing driven by proptest, well-formedness (validity predicate) oracle"),
 "C16": ("exploration",
         "Round-trip oracles over generated inputs: event buffers (native and hand-built wire messages, every column representation, several tables; and buffers built row by row through the row API, numeric columns receiving NULL / int / float with gaps, compared with the logged cells before and after the wire) must decode to the same tables/columns/row counts/cells; query responses with integer sequences built to hit every layout of the integer codec (constant, range, delta and double-delta at the i8/i16/i32 boundaries +-1, extremes whose differences overflow i64, lengths 0-3), float, string, mixed, null and xor columns must decode value for value; xor float compression must be bit-exact without mantissa and keep sign, exponent and the leading m mantissa bits with mantissa m (0..=52), for max_regret in {0,30,100,1000}.",
         "DESIGN.md 4 C16", "Pure in-process codecs; NaN payloads compared by bit pattern; the server-side column conversion (encode_column) is exercised end-to-end by C17.",
         "property-based testing (proptest), round-trip (decode o encode) oracle"),
 "C14": ("fault_enumeration",
         "Round trip of every stored blob kind built from generated content (partition segments from columns of every content class with a coverage table of codec ops and section kinds, catalogues with odd names / sub-partitions / cursors, WAL segments) plus enumeration of corruptions: for each stored blob EVERY single-bit flip and EVERY truncation length (blobs <= 600 bytes; fixed stride beyond) and appended suffixes must be rejected by the checksummed loader; at database level a directory with one corrupted file must yield a reported failure, never different rows, never a hang.",
         "DESIGN.md 4 C14", "Payload-level mutations under a recomputed checksum are different valid files and are not judged; decoders are reached through hook H3 re-exports.",
         "property-based generation of blobs (proptest) + exhaustive single-fault enumeration per blob; round-trip and rejection oracles"),
 "C15": ("exploration",
         "Generated table names (empty, dots, slashes, `..`, 300 bytes, case pairs, names equal to file names) and column sets from an adversarial pool under sub-partition size limits from 1 byte (one column per file) to unlimited: after ingest, flush and a restart every stored column and absent names sorting before / between / after stored ones are read one by one in generated order and must equal the model or read as NULL; every file must lie under tables/<one directory per table>/, directories are not shared; sanitize_table_name is checked for injectivity, separators, leading dots and length on generated name pairs.",
         "DESIGN.md 4 C15", "Names containing a double quote are not generated (SQL quoting); private helpers are reached through hook H3 wrappers.",
         "property-based testing (proptest) against a reference model plus a validity predicate over the directory listing"),
 "C17": ("exploration",
         "Differential: one database is served by server::run on a loopback port; generated histories of /insert_bin posts and queries through /query, /query_cols and /multi_query_cols (JSON; binary with and without xor float compression, with a mantissa, and with a mantissa plus full_precision_cols), including failing queries, are compared request by request with run_query on the same handle: same names in order, same values (exact i64/f64 after parsing JSON with round-trip float parsing; non-finite floats are null in JSON; NULL floats are the reserved NaN in binary), failing queries give a 4xx/5xx status and the server keeps answering.",
         "DESIGN.md 4 C17", "One server per shard process with per-case table names (actix does not release a stopped server's worker threads promptly); only the data endpoints are exercised; binary responses carry columns in a map, so only the name set is compared there.",
         "property-based testing (proptest), differential oracle (HTTP vs embedded API)"),
 "C09": ("fault_enumeration",
         "Generated workloads (ingest into 1-2 tables, force_flush with and without compaction, restart) are run once while hook H1 records every primitive file-system effect; then EVERY prefix of that effect sequence, plus torn temp files (1, half, all-but-one bytes), is materialised as a directory and opened: opening must terminate without panic and the content (tables, columns, rows, catalogue) must equal the acknowledged prefix or that plus the one in-flight ingestion taken whole; the recovered database is flushed and reopened (same content) and every prefix of the recovery's own effects is materialised and recovered again (idempotence).",
         "DESIGN.md 4 C09", "Crash model = prefix of the recorded effect sequence (no reordering of un-synced writes, no lost rename); generation picks the workload, enumeration covers all of its crash points.",
         "property-based workload generation (proptest) + exhaustive crash-point enumeration via a file-system effect hook; model oracle"),
 "C10": ("exploration",
         "Placed schedules: a generated workload (flushed and unflushed batches whose rows are tagged (batch, idx), a column present only in some batches) followed by a force_flush that hook H2 parks at each of 11 lock-free step boundaries of flush and compaction; at the parked point five query kinds (existing / absent / partly absent columns, SELECT *, per-batch counts) run, optionally after a second ingestion, and again after release; all labels x all query kinds are enumerated per workload. Plus multi-threaded stress (2 writers, flusher, optional evictor, 2 query threads). Every answer must be prefix-consistent: no duplicate row, each batch entirely or not at all, every batch acknowledged before the query started present; no query may fail and no database thread may panic.",
         "DESIGN.md 4 C10", "The harness owns the schedule only at the named sync points; interleavings inside a step are sampled by the stress part (nondeterministic: a stress failure is reproducible only statistically). A parked query that completes only after the flush is released counts as inconclusive.",
         "schedule placement via sync-point hooks (enumerated labels x queries) over proptest-generated workloads, plus randomized multi-threaded stress; prefix-consistency invariant oracle"),
}

NOT_YET = {
}

def main():
    props = [json.loads(l) for l in open(os.path.join(ROOT, "properties.jsonl"))]
    checks = []
    na = []
    for p in props:
        pid = p["id"]
        if pid in CHECKS:
            cat, text, ref, note, tech = CHECKS[pid]
            checks.append({
                "property_id": pid,
                "quick_cmd": f"./check {pid} quick",
                "thorough_cmd": f"./check {pid} thorough",
                "evidence_file": f"/verif/evidence/{pid}.json",
                "replay_cmd_template": "./check --replay {path}",
                "engine": "harness",
                "level_claimed": {"category": cat, "text": text, "design_ref": ref},
                "level_note": note,
                "technique": tech,
            })
        else:
            na.append({"property_id": pid, "reason": NOT_YET.get(pid, "check not built yet in this session (work in progress; the technique applies, see DESIGN.md section 4)")})
    hooks = subprocess.run(["git", "-C", "/repo", "log", "--format=%h %s", "--grep=^verif hooks"], capture_output=True, text=True).stdout.strip().splitlines()
    m = {
        "version": 1,
        "setup_cmd": "./check --build",
        "hooks": {
            "guard": "cargo feature `verif` of the locustdb crate (every hook is #[cfg(feature = \"verif\")])",
            "enable": "the harness crate depends on locustdb = { path = \"/repo\", features = [\"verif\"] }; ./check rebuilds it from /repo's working tree",
            "baseline_off_cmd": "cd /repo && cargo test --workspace --no-fail-fast --offline",
            "source_commits": [h.split()[0] for h in hooks],
            "add_only": True,
        },
        "engines": [
            {"name": "harness", "path": "/verif/harness", "serves_properties": sorted(CHECKS.keys()),
             "kind_free_text": "Rust binary `verif`: proptest TestRunner driven from a binary (fixed seeds from VERIF_SEED, 16 shard child processes), reference model/evaluator oracles, known-findings matching, shrinking to JSON replay files"},
        ],
        "checks": checks,
        "not_applicable": na,
        "notes": "Exit 0 = held, 1 = VIOLATION line printed, 2 = the check could not run (build failure, watchdog). Known findings: /verif/known_findings.json.",
    }
    json.dump(m, open(os.path.join(ROOT, "MANIFEST.json"), "w"), indent=1)
    print("wrote MANIFEST.json:", len(checks), "checks,", len(na), "not applicable")

if __name__ == "__main__":
    main()
