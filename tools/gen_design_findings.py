#!/usr/bin/env python3
"""Rewrites the bullet lists of DESIGN.md 9.3 (repaired defects) and 9.4 (open known findings) from known_findings.json."""
import json, re
k = json.load(open('/verif/known_findings.json'))
s = open('/verif/DESIGN.md').read()

fixed = "\n".join("* " + f[len("fixed: "):] for f in k['fixed']) + "\n"
def open_line(f):
    line = "* **%s** (%s): %s" % (f['id'], ", ".join(f['properties']), f['what'])
    if f.get('avoid'):
        line += " — excluded by construction: " + f['avoid'] + "."
    return line
opened = "\n".join(open_line(f) for f in k['findings']) + "\n"

# 9.3
m = re.search(r"(### 9\.3 Defects repaired on the unchanged tree \()\d+( `fix:` commits in /repo\)\n\n.*?\n\n)(\* .*?\n)(\n\S)", s, re.S)
assert m, "9.3 not found"
s = s[:m.start()] + m.group(1) + str(len(k['fixed'])) + m.group(2) + fixed + m.group(4) + s[m.end():]
# 9.4
m = re.search(r"(### 9\.4 Open known findings \(recorded, not repaired\)\n\n.*?\n\n)(\* \*\*KF-.*?\n)(\n\S)", s, re.S)
assert m, "9.4 not found"
s = s[:m.start()] + m.group(1) + opened + m.group(3) + s[m.end():]
open('/verif/DESIGN.md', 'w').write(s)
print("fixed:", len(k['fixed']), "open:", len(k['findings']))
