#!/bin/bash
# tools/run_all.sh quick|thorough [ids...] : runs the registered checks one after the other, logs exit code, violations and wall time
tier=${1:-quick}; shift
ids=${@:-C01 C02 C03 C04 C05 C06 C07 C08 C09 C10 C11 C12 C13 C14 C15 C16 C17 C18}
out=/tmp/wt/run_all_$tier; mkdir -p $out; : > $out/summary.txt
cd /verif
for c in $ids; do
  t0=$(date +%s)
  ./check $c $tier > $out/$c.out 2>&1; rc=$?
  t1=$(date +%s)
  echo "$c $tier exit=$rc violations=$(grep -c '^VIOLATION' $out/$c.out) wall=$((t1-t0))s $(grep -v '^KNOWN' $out/$c.out | grep " $tier: " | tail -1 | cut -c1-140)" >> $out/summary.txt
done
echo finished >> $out/summary.txt
