#!/usr/bin/env python3
"""Applies every seeded change under /verif/seeded/<name>/patch.diff to /repo's working tree in turn, runs the
quick check of its property (meta.json "property"), reverts, and writes seeded/RESULTS.md.
/repo must be clean; run nothing else against /repo meanwhile.   tools/run_seeded.py [name-substring ...]"""
import json, os, subprocess, sys, time, glob

def sh(cmd, **kw):
    return subprocess.run(cmd, shell=True, capture_output=True, text=True, **kw)

if sh("git -C /repo status --porcelain").stdout.strip():
    print("/repo working tree is not clean"); sys.exit(2)
head = sh("git -C /repo log --format=%h -1").stdout.strip()
rows = []
for d in sorted(glob.glob("/verif/seeded/C*/")):
    name = os.path.basename(d.rstrip("/"))
    if sys.argv[1:] and not any(a in name for a in sys.argv[1:]):
        continue
    meta = json.load(open(d + "meta.json"))
    prop = meta["property"]
    r = sh(f"git -C /repo apply {d}patch.diff")
    if r.returncode != 0:
        rows.append((name, prop, "patch does not apply to %s" % head, 0, "")); continue
    t0 = time.time()
    # a run against a mutated tree must not replace the committed evidence of the unchanged tree
    ev = f"/verif/evidence/{prop}.json"
    saved = open(ev).read() if os.path.exists(ev) else None
    r = sh(f"cd /verif && ./check {prop} quick", timeout=3600)
    if saved is not None:
        open(ev, "w").write(saved)
    dt = time.time() - t0
    sh("git -C /repo checkout -- .")
    viol = [l for l in r.stdout.splitlines() if l.startswith("VIOLATION")]
    msg = ""
    if r.returncode == 1 and viol:
        for v in viol:
            try:
                j = json.load(open(v.split("replay=")[1].strip()))
                msg = " ".join(j["observed"]["message"].split())[:220]
                break
            except Exception:
                continue
        verdict = "caught (%d VIOLATION lines)" % len(viol)
    elif r.returncode == 0:
        verdict = "MISSED"
    else:
        verdict = "no verdict (exit %d)" % r.returncode
    rows.append((name, prop, verdict, dt, msg))
    print(rows[-1], flush=True)
sh("git -C /repo checkout -- .")
if not sys.argv[1:]:
    with open("/verif/seeded/RESULTS.md", "w") as f:
        f.write("# Seeded changes against the quick tier (tools/run_seeded.py)\n\n/repo HEAD %s. Each patch is applied to /repo's working tree, `./check <property> quick` is run, the patch is reverted.\n\n| seeded change | property | verdict | time | first reported message |\n|---|---|---|---|---|\n" % head)
        for n, p, v, d, m in rows:
            f.write("| %s | %s | %s | %.0f s | %s |\n" % (n, p, v, d, m.replace("|", "/")))
