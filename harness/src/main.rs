//! verif — property-based checks for LocustDB.
//!
//!   verif run <Cxx> <quick|thorough>     parent: replays, shards, evidence, verdict
//!   verif shard <Cxx> <tier> <i> <n> <out.json>
//!   verif replay <file.json>

#![allow(dead_code, unused_imports)]
mod db;
mod eval;
mod gen;
mod hist;
mod model;
mod props;
mod qgen;
mod runner;

use std::collections::BTreeMap;
use std::io::Read;
use std::path::{Path, PathBuf};
use std::process::{Command, Stdio};
use std::time::{Duration, Instant};

use serde_json::{json, Value};

use runner::{Ctx, FailureReport, KnownFindings, ShardReport, Stats, Tier, VERIF_ROOT};

fn usage() -> ! {
    eprintln!("usage: verif run <Cxx> <quick|thorough> | verif shard <Cxx> <tier> <i> <n> <out> | verif replay <file>");
    std::process::exit(2);
}

fn seed_from_env() -> u64 {
    std::env::var("VERIF_SEED").ok().and_then(|s| s.trim().parse::<u64>().ok()).unwrap_or(0)
}

fn main() {
    let args: Vec<String> = std::env::args().collect();
    if args.len() < 2 {
        usage();
    }
    db::install_panic_hook();
    db::install_sync_hook();
    if std::env::var("VERIF_VERBOSE").is_ok() {
        db::set_quiet(false);
    }
    match args[1].as_str() {
        "run" if args.len() == 4 => {
            let tier = Tier::parse(&args[3]).unwrap_or_else(|| usage());
            std::process::exit(run_parent(&args[2], tier));
        }
        "shard" if args.len() == 7 => {
            let tier = Tier::parse(&args[3]).unwrap_or_else(|| usage());
            let shard: usize = args[4].parse().unwrap();
            let n: usize = args[5].parse().unwrap();
            run_shard(&args[2], tier, shard, n, Path::new(&args[6]));
        }
        "replay" if args.len() == 3 => {
            std::process::exit(run_replay(Path::new(&args[2]), true));
        }
        "probe" => {
            props::probe::run(&args[2..]);
        }
        _ => usage(),
    }
}

fn run_shard(prop: &str, tier: Tier, shard: usize, n: usize, out: &Path) {
    let entry = props::lookup(prop).unwrap_or_else(|| {
        eprintln!("unknown property {}", prop);
        std::process::exit(2);
    });
    let mut ctx = Ctx::new(prop, tier, seed_from_env(), shard, n);
    (entry.shard)(&mut ctx);
    let report = ctx.report();
    std::fs::write(out, serde_json::to_vec(&report).unwrap()).expect("write shard report");
    // Database threads of abandoned cases may still be parked; do not wait for them.
    std::process::exit(0);
}

/// Replays one saved case against the current tree. Returns the process exit code.
fn run_replay(path: &Path, print: bool) -> i32 {
    match replay_file(path) {
        Ok(ReplayOutcome::Pass) => {
            if print {
                println!("replay {}: property held", path.display());
            }
            0
        }
        Ok(ReplayOutcome::Known(id, what, prop)) => {
            if print {
                println!("KNOWN-FINDING: property={} {} [{}]", prop, what, id);
            }
            0
        }
        Ok(ReplayOutcome::Fail(prop, f)) => {
            if print {
                println!("replay {}: {}", path.display(), f.message);
                println!("VIOLATION property={} replay={}", prop, path.display());
            }
            1
        }
        Err(e) => {
            eprintln!("replay {}: {}", path.display(), e);
            2
        }
    }
}

enum ReplayOutcome {
    Pass,
    Known(String, String, String),
    Fail(String, runner::Failure),
}

fn replay_file(path: &Path) -> Result<ReplayOutcome, String> {
    let text = std::fs::read_to_string(path).map_err(|e| e.to_string())?;
    let v: Value = serde_json::from_str(&text).map_err(|e| e.to_string())?;
    let prop = v["property"].as_str().ok_or("no property")?.to_string();
    let sub = v["sub"].as_str().unwrap_or("").to_string();
    let entry = props::lookup(&prop).ok_or("unknown property")?;
    let ctx = Ctx::new(&prop, Tier::Quick, 0, 0, 1);
    db::clear_panics();
    let mut env = ctx.env(false);
    env.replay = true;
    let outcome = if sub == "sql_expect" {
        match serde_json::from_value::<qgen::SqlExpect>(v["case"].clone()) {
            Ok(c) => qgen::check_sql_expect(&c),
            Err(e) => Err(props::bad_case(e)),
        }
    } else {
        (entry.replay)(&sub, &v["case"], &mut env)
    };
    match outcome {
        Ok(()) => Ok(ReplayOutcome::Pass),
        Err(mut f) => {
            if f.kind == "invalid" {
                return Err(f.message);
            }
            // a file saved as the reproducer of a wrong-answer finding names that finding
            if let Some(id) = v["kf"].as_str() {
                if f.kind == "mismatch" {
                    f.tags.push(format!("replay_kf:{}", id));
                }
            }
            if let Some(id) = ctx.kf.matches(&prop, &f) {
                let what = ctx
                    .kf
                    .findings
                    .iter()
                    .find(|k| k.id == id)
                    .map(|k| k.what.clone())
                    .unwrap_or_default();
                Ok(ReplayOutcome::Known(id, what, prop))
            } else {
                Ok(ReplayOutcome::Fail(prop, f))
            }
        }
    }
}

fn nshards(prop: &str, tier: Tier) -> usize {
    let _ = (prop, tier);
    std::env::var("VERIF_SHARDS").ok().and_then(|s| s.parse().ok()).unwrap_or(16)
}

fn run_parent(prop: &str, tier: Tier) -> i32 {
    let start = Instant::now();
    let entry = match props::lookup(prop) {
        Some(e) => e,
        None => {
            eprintln!("unknown property {}", prop);
            return 2;
        }
    };
    let seed = seed_from_env();
    let kf = KnownFindings::load();
    let exe = std::env::current_exe().expect("current_exe");
    let mut violations: Vec<(String, String)> = vec![]; // (message, replay path)
    let mut known_lines: Vec<String> = vec![];
    let mut replayed = 0u64;

    // 1. Replay tier: committed regression cases and known-finding reproducers, each in a child process.
    let mut replay_files: Vec<(PathBuf, Option<String>)> = vec![];
    let regress_dir = Path::new(VERIF_ROOT).join("replays").join("regress");
    if let Ok(rd) = std::fs::read_dir(&regress_dir) {
        let mut files: Vec<PathBuf> = rd
            .flatten()
            .map(|e| e.path())
            .filter(|p| {
                p.file_name()
                    .and_then(|n| n.to_str())
                    .map(|n| n.starts_with(prop) && n.ends_with(".json"))
                    .unwrap_or(false)
            })
            .collect();
        files.sort();
        for f in files {
            replay_files.push((f, None));
        }
    }
    for f in kf.open_for(prop) {
        if let Some(r) = f.repro.get(prop) {
            replay_files.push((Path::new(VERIF_ROOT).join(r), Some(f.id.clone())));
        } else {
            // listed without a reproducer for this property: still announce it
            known_lines.push(format!("KNOWN-FINDING: property={} {} [{}] (no reproducer for this property; class excluded by construction)", prop, f.what, f.id));
        }
    }
    let replay_results = run_children_replay(&exe, &replay_files);
    for ((path, kfid), (code, out)) in replay_files.iter().zip(replay_results) {
        replayed += 1;
        match (kfid, code) {
            (None, 0) => {}
            (None, 1) => violations.push((format!("regression case fails: {}", out.trim()), path.display().to_string())),
            (Some(id), 0) => {
                if out.contains("KNOWN-FINDING:") {
                    for l in out.lines().filter(|l| l.starts_with("KNOWN-FINDING:")) {
                        known_lines.push(l.to_string());
                    }
                } else {
                    println!("note: known finding {} no longer reproduces with {}", id, path.display());
                }
            }
            (Some(id), 1) => {
                // The reproducer fails, but not in the way the finding's signature describes: a different violation.
                violations.push((format!("reproducer of {} fails differently: {}", id, out.trim()), path.display().to_string()));
            }
            (_, c) => {
                eprintln!("replay {} could not run (exit {}): {}", path.display(), c, out.trim());
                return 2;
            }
        }
    }

    // 2. Generated search in shards.
    let n = nshards(prop, tier);
    let tmp = db::temp_dir("shards");
    // VERIF_BUDGET_S overrides the tier's wall-clock budget (the shards stop generating at 70% of it)
    let budget = Duration::from_secs(
        std::env::var("VERIF_BUDGET_S").ok().and_then(|v| v.parse().ok()).unwrap_or_else(|| tier.pick(entry.quick_budget_s, entry.thorough_budget_s)),
    );
    let mut children = vec![];
    for i in 0..n {
        let out = tmp.path().join(format!("shard-{}.json", i));
        let child = Command::new(&exe)
            .args(["shard", prop, tier.name(), &i.to_string(), &n.to_string()])
            .arg(&out)
            .env("VERIF_SEED", seed.to_string())
            .env("VERIF_SOFT_DEADLINE_S", format!("{}", budget.as_secs_f64() * 0.7))
            .stdin(Stdio::null())
            .stdout(Stdio::null())
            .stderr(Stdio::piped())
            .spawn()
            .expect("spawn shard");
        children.push((i, child, out));
    }
    let mut total = Stats::default();
    let mut failures: Vec<FailureReport> = vec![];
    let mut broken: Vec<String> = vec![];
    let deadline = Instant::now() + budget;
    for (i, mut child, out) in children {
        let status = loop {
            match child.try_wait() {
                Ok(Some(s)) => break Some(s),
                Ok(None) => {
                    if Instant::now() > deadline {
                        let _ = child.kill();
                        let _ = child.wait();
                        break None;
                    }
                    std::thread::sleep(Duration::from_millis(50));
                }
                Err(_) => break None,
            }
        };
        let mut stderr = String::new();
        if let Some(mut e) = child.stderr.take() {
            let _ = e.read_to_string(&mut stderr);
        }
        match status {
            Some(s) if s.success() => match std::fs::read(&out)
                .ok()
                .and_then(|b| serde_json::from_slice::<ShardReport>(&b).ok())
            {
                Some(r) => {
                    total.merge(&r.stats);
                    if let Some(f) = r.failure {
                        failures.push(f);
                    }
                }
                None => broken.push(format!("shard {}: no report", i)),
            },
            Some(s) => {
                let tail: String = stderr.lines().rev().take(5).collect::<Vec<_>>().join(" | ");
                broken.push(format!("shard {}: exit {:?}: {}", i, s.code(), tail));
            }
            None => broken.push(format!("shard {}: watchdog ({} s)", i, budget.as_secs())),
        }
    }

    // 3. Verdict.
    // Smallest failing case first.
    failures.sort_by_key(|f| f.case.to_string().len());
    for f in &failures {
        let p = runner::write_replay(f);
        if f.failure.kind == "error" {
            // the harness itself failed (a panic in the check's own code, a port that could not be bound, ...):
            // that says nothing about the property, the run counts as broken (exit 2)
            broken.push(format!("harness error: {} (case saved as {})", f.failure.message.chars().take(300).collect::<String>(), p.display()));
        } else {
            violations.push((f.failure.message.clone(), p.display().to_string()));
        }
    }
    for (id, n) in &total.kf_hits {
        if let Some(k) = kf.findings.iter().find(|k| &k.id == id) {
            let line = format!("KNOWN-FINDING: property={} {} [{}]", prop, k.what, id);
            if !known_lines.iter().any(|l| l.contains(&format!("[{}]", id))) {
                known_lines.push(line);
            }
        }
        let _ = n;
    }
    known_lines.sort();
    known_lines.dedup();
    for l in &known_lines {
        println!("{}", l);
    }

    if total.skipped_after_deadline > 0 {
        total.notes.push(format!(
            "soft deadline ({:.0} s = 70% of the tier's budget) reached: {} generated cases were not evaluated; the counts above are what was explored",
            budget.as_secs_f64() * 0.7,
            total.skipped_after_deadline
        ));
    }
    let wall = start.elapsed().as_secs_f64();
    let evidence = json!({
        "property_id": prop,
        "tier": tier.name(),
        "seed": seed,
        "level": entry.level,
        "coverage": {
            "evaluations": total.evaluations + replayed,
            "distinct_nontrivial": total.nontrivial.len(),
            "rule": entry.rule,
            "samples": total.samples,
            "classes": total.classes,
            "declined": total.declined,
            "excluded_by_known_finding": total.excluded,
            "known_finding_hits": total.kf_hits,
            "inconclusive": total.inconclusive,
            "skipped_after_soft_deadline": total.skipped_after_deadline,
            "replayed_saved_cases": replayed,
            "exhaustive": !total.exhaustive_subspaces.is_empty() && entry.exhaustive_claim,
            "exhaustive_subspaces": total.exhaustive_subspaces,
            "shards": n,
            "notes": total.notes,
            "broken_shards": broken,
        },
        "assumptions": entry.assumptions,
        "wall_s": wall,
        "violations": violations.len(),
    });
    let ev_dir = Path::new(VERIF_ROOT).join("evidence");
    let _ = std::fs::create_dir_all(&ev_dir);
    std::fs::write(
        ev_dir.join(format!("{}.json", prop)),
        serde_json::to_string_pretty(&evidence).unwrap(),
    )
    .expect("write evidence");

    println!(
        "{} {}: {} cases, {} distinct non-trivial, {} declined, {} inconclusive, excluded {:?}, known-finding hits {:?}, {:.1} s",
        prop,
        tier.name(),
        total.evaluations,
        total.nontrivial.len(),
        total.declined,
        total.inconclusive,
        total.excluded,
        total.kf_hits,
        wall
    );
    let mut zero: Vec<&str> = vec![];
    for c in entry.required_classes {
        if total.classes.get(*c).copied().unwrap_or(0) == 0 {
            zero.push(c);
        }
    }
    if !zero.is_empty() {
        println!("warning: classes never generated in this run: {:?}", zero);
    }

    if !violations.is_empty() {
        for (msg, path) in &violations {
            println!("{}", msg.lines().next().unwrap_or(""));
            println!("VIOLATION property={} replay={}", prop, path);
        }
        return 1;
    }
    if !broken.is_empty() {
        for b in &broken {
            eprintln!("BROKEN: {}", b);
        }
        return 2;
    }
    if total.evaluations > 0 && total.inconclusive * 100 > total.evaluations {
        eprintln!("BROKEN: {} of {} cases inconclusive", total.inconclusive, total.evaluations);
        return 2;
    }
    0
}

fn run_children_replay(exe: &Path, files: &[(PathBuf, Option<String>)]) -> Vec<(i32, String)> {
    let mut children = vec![];
    for (f, _) in files {
        let c = Command::new(exe)
            .arg("replay")
            .arg(f)
            .stdin(Stdio::null())
            .stdout(Stdio::piped())
            .stderr(Stdio::piped())
            .spawn()
            .expect("spawn replay");
        children.push(c);
    }
    let mut out = vec![];
    for mut c in children {
        let deadline = Instant::now() + Duration::from_secs(180);
        let status = loop {
            match c.try_wait() {
                Ok(Some(s)) => break Some(s),
                Ok(None) => {
                    if Instant::now() > deadline {
                        let _ = c.kill();
                        let _ = c.wait();
                        break None;
                    }
                    std::thread::sleep(Duration::from_millis(20));
                }
                Err(_) => break None,
            }
        };
        let mut so = String::new();
        if let Some(mut o) = c.stdout.take() {
            let _ = o.read_to_string(&mut so);
        }
        let mut se = String::new();
        if let Some(mut e) = c.stderr.take() {
            let _ = e.read_to_string(&mut se);
        }
        let code = status.and_then(|s| s.code()).unwrap_or(2);
        out.push((code, if code == 2 { format!("{} {}", so, se) } else { so }));
    }
    out
}

#[allow(dead_code)]
fn unused(_: BTreeMap<String, String>) {}
