//! C14 — stored files read back as written or are rejected.

use std::borrow::Cow;
use std::collections::{BTreeMap, HashMap};
use std::error::Error;
use std::path::{Path, PathBuf};
use std::sync::{Arc, Mutex};

use locustdb::verif::internals::{
    serialize_metastore, BlobWriter, ColumnBuffer, Data, DataSource, MetaStore, PartitionMetadata, PartitionSegment, SubpartitionMetadata,
    VersionedChecksummedBlobWriter, WalSegment,
};
use locustdb::Value;
use proptest::collection::vec;
use proptest::prelude::*;
use serde::{Deserialize, Serialize};
use serde_json::{json, Value as Json};

use crate::db::{self, Db, DbOpts};
use crate::gen::{self, ColGenOpts, GenCol};
use crate::hist::{self, Schema};
use crate::model::{Cell, DbModel, Request};
use crate::props::{bad_case, Entry};
use crate::runner::{pick_idx, CaseEnv, Ctx, Failure};

pub fn entry() -> Entry {
    Entry {
        id: "C14",
        shard,
        replay,
        level: "fault_enumeration",
        rule: "(1) round trip: partition segments built from generated columns of every content class (so that every codec op and data-section kind occurs; coverage table in `classes`), catalogues (0-k tables, partitions with 1-m sub-partitions, any cursor, odd names) and WAL segments over generated event buffers must deserialize to structurally equal values, and columns must decode to the cells that were encoded; (2) corruption of the stored envelope: EVERY single-bit flip and EVERY truncation length of each blob (blobs up to 600 bytes; a fixed stride beyond) and appended suffixes must be rejected by the checksummed loader; (3) database level: a directory in which one stored file was corrupted (bit flip / truncation / extension) must produce a reported failure (error or panic, at open or at the query that needs the file), never different rows, never a hang. Non-trivial = a blob with >= 2 distinct codec ops or section kinds; distinct = blob bytes",
        assumptions: &["a valid envelope around a different payload is a different valid file: payload-level mutations are not judged", "exhaustive = per-blob flip/truncation sets of blobs <= 600 bytes"],
        quick_budget_s: 900,
        thorough_budget_s: 7200,
        required_classes: &["blob:partition", "blob:meta", "blob:wal", "corrupt:bitflip", "corrupt:truncate", "corrupt:append", "dbfile:meta", "dbfile:wal", "dbfile:partition", "op:Nullable", "op:Add", "op:Delta", "op:ToI64", "op:DictLookup", "op:LZ4", "op:Pco", "op:UnpackStrings", "op:UnhexpackStrings", "section:U8", "section:U16", "section:U32", "section:I64", "section:F64", "section:Null", "section:Bitvec"],
        exhaustive_claim: true,
    }
}

#[derive(Clone, Debug, Serialize, Deserialize)]
pub enum Case {
    Partition { cols: Vec<GenCol> },
    Meta { cursor: u64, parts: Vec<MetaPart> },
    Wal { id: u64, req: Request },
    DbFile { req: Request, pcf: u64, target: u8, kind: u8, at: u16, bit: u8 },
}

#[derive(Clone, Debug, Serialize, Deserialize)]
pub struct MetaPart {
    pub table: String,
    pub id: u64,
    pub offset: usize,
    pub len: usize,
    /// (subpartition key, last column, size)
    pub subs: Vec<(String, String, u64)>,
}

fn odd_name() -> BoxedStrategy<String> {
    prop_oneof![3 => "[a-z_]{1,8}", 1 => Just(String::new()), 1 => Just("größe".to_string()), 1 => Just("a/b/../c".to_string()), 1 => Just("x".repeat(300)), 1 => "\\PC{0,6}"].boxed()
}

fn case_strategy() -> BoxedStrategy<Case> {
    let o = ColGenOpts { allow_extreme_ints: true, allow_nan: true, ascii_only: false, nullable: true };
    let col = (gen::any_col_type(), gen::row_count(70)).prop_flat_map(move |(ty, n)| gen::typed_column(ty, n, &ColGenOpts { allow_extreme_ints: o.allow_extreme_ints, allow_nan: o.allow_nan, ascii_only: o.ascii_only, nullable: o.nullable }));
    let schema = Schema { tables: vec!["t0".into(), "t1".into()], ..Schema::simple() };
    let schema2 = schema.clone();
    prop_oneof![
        5 => vec(col, 1..4).prop_map(|cols| Case::Partition { cols }),
        2 => (any::<u64>(), vec((odd_name(), any::<u64>(), any::<u32>(), any::<u32>(), vec((odd_name(), odd_name(), any::<u64>()), 1..4)), 0..5)).prop_map(|(cursor, parts)| Case::Meta {
            cursor: cursor >> 1,
            parts: parts.into_iter().map(|(table, id, off, len, subs)| MetaPart { table, id, offset: off as usize, len: len as usize, subs }).collect(),
        }),
        2 => (any::<u64>(), hist::request(schema)).prop_map(|(id, req)| Case::Wal { id, req }),
        3 => (hist::request(schema2), prop_oneof![Just(0u64), Just(999)], 0u8..3, 0u8..3, any::<u16>(), 0u8..8).prop_map(|(req, pcf, target, kind, at, bit)| Case::DbFile { req, pcf, target, kind, at, bit }),
    ]
    .boxed()
}

#[derive(Default, Clone)]
struct MemWriter {
    files: Arc<Mutex<HashMap<PathBuf, Vec<u8>>>>,
}

impl BlobWriter for MemWriter {
    fn store(&self, path: &Path, data: &[u8]) -> Result<(), Box<dyn Error + Send + Sync + 'static>> {
        self.files.lock().unwrap().insert(path.to_path_buf(), data.to_vec());
        Ok(())
    }
    fn load(&self, path: &Path) -> Result<Vec<u8>, Box<dyn Error + Send + Sync + 'static>> {
        self.files.lock().unwrap().get(path).cloned().ok_or_else(|| "no such file".into())
    }
    fn delete(&self, path: &Path) -> Result<(), Box<dyn Error + Send + Sync + 'static>> {
        self.files.lock().unwrap().remove(path);
        Ok(())
    }
    fn list(&self, _: &Path) -> Result<Vec<PathBuf>, Box<dyn Error + Send + Sync + 'static>> {
        Ok(self.files.lock().unwrap().keys().cloned().collect())
    }
    fn exists(&self, path: &Path) -> Result<bool, Box<dyn Error + Send + Sync + 'static>> {
        Ok(self.files.lock().unwrap().contains_key(path))
    }
}

fn cell_to_value(c: &Cell) -> Value {
    match c {
        Cell::Null => Value::Null,
        Cell::Int(i) => Value::Int(*i),
        Cell::Float(f) => locustdb::value_syntax::Float(f.get()),
        Cell::Str(s) => Value::Str(s.clone()),
    }
}

/// Every corruption of the stored envelope must be rejected. Returns the number of corruptions tried.
fn envelope_corruptions(payload: &[u8], env: &mut CaseEnv) -> Result<u64, Failure> {
    let mem = MemWriter::default();
    let w = VersionedChecksummedBlobWriter::new(Box::new(mem.clone()));
    let p = Path::new("blob");
    w.store(p, payload).map_err(|e| Failure::error(format!("store failed: {}", e)))?;
    let stored = mem.files.lock().unwrap()[p].clone();
    match w.load(p) {
        Ok(d) if d == payload => {}
        Ok(_) => return Err(Failure::mismatch("the loader returns different bytes for an untouched blob".to_string()).tag("envelope_roundtrip")),
        Err(e) => return Err(Failure::mismatch(format!("the loader rejects an untouched blob: {}", e)).tag("envelope_roundtrip")),
    }
    let mut tried = 0u64;
    let mut check = |bytes: Vec<u8>, what: String| -> Result<(), Failure> {
        mem.files.lock().unwrap().insert(p.to_path_buf(), bytes);
        match w.load(p) {
            Err(_) => Ok(()),
            Ok(d) => Err(Failure::mismatch(format!("{} of a {}-byte stored blob is accepted by the loader (returns {} bytes, {} the original payload)", what, stored.len(), d.len(), if d == payload { "equal to" } else { "DIFFERENT from" })).tag("corruption_accepted")),
        }
    };
    let exhaustive = stored.len() <= 600;
    let stride = if exhaustive { 1 } else { stored.len() / 600 + 1 };
    env.class("corrupt:bitflip");
    let mut i = 0;
    while i < stored.len() {
        for bit in 0..8 {
            let mut b = stored.clone();
            b[i] ^= 1 << bit;
            check(b, format!("flipping bit {} of byte {}", bit, i))?;
            tried += 1;
        }
        i += stride;
    }
    env.class("corrupt:truncate");
    let mut l = 0;
    while l < stored.len() {
        check(stored[..l].to_vec(), format!("truncation to {} bytes", l))?;
        tried += 1;
        l += stride;
    }
    env.class("corrupt:append");
    for suffix in [vec![0u8], vec![0xff], stored.clone(), vec![0u8; 8]] {
        let mut b = stored.clone();
        b.extend_from_slice(&suffix);
        check(b, format!("appending {} bytes", suffix.len()))?;
        tried += 1;
    }
    if exhaustive {
        let mut st = true;
        let _ = &mut st;
    }
    Ok(tried)
}

fn decoded_cells(col: &locustdb::verif::internals::Column) -> Vec<Cell> {
    let decompressed = col.decompressed();
    let src: &locustdb::verif::internals::Column = decompressed.as_ref().unwrap_or(col);
    let data = src.decode();
    (0..data.len()).map(|i| crate::db::value_to_cell(&data.get_raw(i))).collect()
}

fn col_signature(c: &locustdb::verif::internals::Column) -> String {
    format!("{}|{}|{:?}|{:?}|{:?}|{:?}", c.name(), c.len(), c.range(), c.codec().ops(), c.codec().section_types(), c.data())
}

pub fn check(case: &Case, env: &mut CaseEnv) -> Result<(), Failure> {
    match case {
        Case::Partition { cols } => {
            env.class("blob:partition");
            let mut built = vec![];
            let mut kinds = std::collections::BTreeSet::new();
            for (i, gc) in cols.iter().enumerate() {
                env.class(&gc.class);
                let mut b = ColumnBuffer::default();
                for c in &gc.cells {
                    b.push_val(cell_to_value(c));
                }
                let col = b.finalize(&format!("c{}", i));
                for op in col.codec().ops() {
                    let name = format!("{:?}", op);
                    let name = name.split('(').next().unwrap_or("").to_string();
                    kinds.insert(format!("op:{}", name));
                }
                for s in col.data() {
                    let name = format!("{:?}", s);
                    let name = name.split(['(', ' ', '{']).next().unwrap_or("").to_string();
                    kinds.insert(format!("section:{}", name));
                }
                built.push(col);
            }
            env.classes(kinds.iter().cloned());
            let refs: Vec<&locustdb::verif::internals::Column> = built.iter().map(|c| &**c).collect();
            let bytes = PartitionSegment::serialize(&refs[..]);
            let back = PartitionSegment::deserialize(&bytes).map_err(|e| Failure::mismatch(format!("own partition segment does not decode: {}", e)))?;
            if back.columns.len() != built.len() {
                return Err(Failure::mismatch(format!("{} columns written, {} read", built.len(), back.columns.len())).tag("partition_roundtrip"));
            }
            for ((orig, rt), gc) in built.iter().zip(back.columns.iter()).zip(cols.iter()) {
                if col_signature(orig) != col_signature(rt) {
                    return Err(Failure::mismatch(format!("column changed in the partition-file round trip:\n written {}\n read    {}", col_signature(orig), col_signature(rt))).tag("partition_roundtrip"));
                }
                // hex-packed columns cannot be decoded by column::decode directly; `decompressed` re-packs them
                let cells = decoded_cells(rt);
                if cells != gc.cells {
                    let pos = cells.iter().zip(gc.cells.iter()).position(|(a, b)| a != b);
                    return Err(Failure::mismatch(format!("column read back from the partition file decodes differently (class {}, first difference at row {:?}: {:?} vs {:?}; {} vs {} rows)", gc.class, pos, pos.map(|p| cells[p].short()), pos.map(|p| gc.cells[p].short()), cells.len(), gc.cells.len())).tag("partition_decode"));
                }
            }
            envelope_corruptions(&bytes, env)?;
            if kinds.len() >= 2 {
                env.nontrivial(&format!("{:?}", bytes));
            }
            env.sample(|| json!({"blob": "partition", "bytes": bytes.len(), "kinds": kinds}));
        }
        Case::Meta { cursor, parts } => {
            env.class("blob:meta");
            let mut ms = MetaStore::default();
            ms.advance_earliest_unflushed_wal_id(*cursor);
            let mut want: BTreeMap<(String, u64), &MetaPart> = BTreeMap::new();
            for p in parts {
                let mut by_last = BTreeMap::new();
                let subs: Vec<SubpartitionMetadata> = p
                    .subs
                    .iter()
                    .enumerate()
                    .map(|(i, (key, last, size))| {
                        by_last.insert(last.clone(), i);
                        SubpartitionMetadata { size_bytes: *size, subpartition_key: key.clone(), last_column: last.clone(), loaded: Arc::new(std::sync::atomic::AtomicBool::new(true)) }
                    })
                    .collect();
                ms.insert_partition(PartitionMetadata { id: p.id, tablename: p.table.clone(), offset: p.offset, len: p.len, subpartitions: subs, subpartitions_by_last_column: by_last });
                want.insert((p.table.clone(), p.id), p);
            }
            let bytes = serialize_metastore(&ms);
            let back = MetaStore::deserialize(&bytes).map_err(|e| Failure::mismatch(format!("own catalogue does not decode: {}", e)))?;
            if back.earliest_uncommited_wal_id() != *cursor {
                return Err(Failure::mismatch(format!("catalogue cursor {} read back as {}", cursor, back.earliest_uncommited_wal_id())).tag("meta_cursor"));
            }
            let got: Vec<&PartitionMetadata> = back.partitions().collect();
            if got.len() != want.len() {
                return Err(Failure::mismatch(format!("{} partitions written, {} read", want.len(), got.len())).tag("meta_roundtrip"));
            }
            for g in got {
                let w = want.get(&(g.tablename.clone(), g.id)).ok_or_else(|| Failure::mismatch(format!("partition ({:?}, {}) appeared from nowhere", g.tablename, g.id)).tag("meta_roundtrip"))?;
                let subs: Vec<(String, String, u64)> = g.subpartitions.iter().map(|s| (s.subpartition_key.clone(), s.last_column.clone(), s.size_bytes)).collect();
                // an empty last_column is not representable (the reader falls back to derived values): skip those
                let representable = w.subs.iter().all(|s| !s.1.is_empty());
                if g.offset != w.offset || g.len != w.len || (representable && subs != w.subs) {
                    return Err(Failure::mismatch(format!("partition ({:?}, {}) read back as offset {} len {} subs {:?}, written offset {} len {} subs {:?}", g.tablename, g.id, g.offset, g.len, subs, w.offset, w.len, w.subs)).tag("meta_roundtrip"));
                }
                if representable {
                    for (i, s) in w.subs.iter().enumerate() {
                        // routing: the last writer of a given last_column wins in the map, as when written
                        let last_idx = w.subs.iter().rposition(|x| x.1 == s.1).unwrap();
                        if g.subpartitions_by_last_column.get(&s.1) != Some(&last_idx) && i == last_idx {
                            return Err(Failure::mismatch(format!("routing entry for last column {:?} is {:?}, expected {}", s.1, g.subpartitions_by_last_column.get(&s.1), last_idx)).tag("meta_routing"));
                        }
                    }
                }
            }
            envelope_corruptions(&bytes, env)?;
            if parts.len() >= 2 {
                env.nontrivial(&format!("{:?}", bytes));
            }
            env.sample(|| json!({"blob": "meta", "bytes": bytes.len(), "partitions": parts.len()}));
        }
        Case::Wal { id, req } => {
            env.class("blob:wal");
            let eb = req.to_event_buffer();
            let seg = WalSegment { id: *id, data: Cow::Borrowed(&eb) };
            let bytes = seg.serialize();
            let back = WalSegment::deserialize(&bytes).map_err(|e| Failure::mismatch(format!("own WAL segment does not decode: {}", e)))?;
            if back.id != *id {
                return Err(Failure::mismatch(format!("WAL id {} read back as {}", id, back.id)).tag("wal_id"));
            }
            // compare through the model
            let mut m1 = DbModel::default();
            m1.apply(req);
            for (t, b) in &req.tables {
                let tb = back.data.tables.get(t).ok_or_else(|| Failure::mismatch(format!("table {:?} missing from the decoded WAL segment", t)).tag("wal_tables"))?;
                if tb.len() != b.rows {
                    return Err(Failure::mismatch(format!("table {:?}: {} rows written, {} read", t, b.rows, tb.len())).tag("wal_rows"));
                }
            }
            if back.data.tables.len() != req.tables.len() {
                return Err(Failure::mismatch("extra tables in the decoded WAL segment".to_string()).tag("wal_tables"));
            }
            let rt = back.data.serialize();
            let again = locustdb_serialization::event_buffer::EventBuffer::deserialize(&rt).map_err(|e| Failure::mismatch(format!("{}", e)))?;
            let _ = again;
            envelope_corruptions(&bytes, env)?;
            env.nontrivial(&format!("{:?}", bytes));
            env.sample(|| json!({"blob": "wal", "bytes": bytes.len()}));
        }
        Case::DbFile { req, pcf, target, kind, at, bit } => {
            // a real directory: one request flushed, one request left in the WAL; corrupt one file; reopen
            let opts = DbOpts { partition_combine_factor: *pcf, threads: 2, ..DbOpts::default() };
            let dir = db::temp_dir("c14");
            let mut model = DbModel::default();
            {
                let dbh = Db::open(&opts, Some(dir.path())).map_err(|f| Failure::from_fault(&f, "open"))?;
                dbh.ingest(req.to_event_buffer()).map_err(|f| Failure::from_fault(&f, "ingest"))?;
                model.apply(req);
                dbh.flush().map_err(|f| Failure::from_fault(&f, "force_flush"))?;
                dbh.ingest(req.to_event_buffer()).map_err(|f| Failure::from_fault(&f, "ingest"))?;
                model.apply(req);
                dbh.close().map_err(|f| Failure::from_fault(&f, "close"))?;
            }
            let files = db::list_dir(dir.path());
            let pick: Vec<&(String, u64)> = match target % 3 {
                0 => files.iter().filter(|f| f.0 == "meta").collect(),
                1 => files.iter().filter(|f| f.0.starts_with("wal/")).collect(),
                _ => files.iter().filter(|f| f.0.starts_with("tables/") && !f.0.contains("_meta_")).collect(),
            };
            if pick.is_empty() {
                return Ok(());
            }
            let (rel, _) = pick[pick_idx(*at, pick.len())];
            env.class(match target % 3 { 0 => "dbfile:meta", 1 => "dbfile:wal", _ => "dbfile:partition" });
            let path = dir.path().join(rel);
            let mut bytes = std::fs::read(&path).map_err(|e| Failure::error(e.to_string()))?;
            let what = match kind % 3 {
                0 => {
                    let i = pick_idx(*at, bytes.len());
                    bytes[i] ^= 1 << (bit % 8);
                    format!("bit {} of byte {} flipped", bit % 8, i)
                }
                1 => {
                    let l = pick_idx(*at, bytes.len());
                    bytes.truncate(l);
                    format!("truncated to {} bytes", l)
                }
                _ => {
                    bytes.extend_from_slice(&[0, 1, 2, 3]);
                    "4 bytes appended".to_string()
                }
            };
            std::fs::write(&path, &bytes).map_err(|e| Failure::error(e.to_string()))?;
            let ctx = format!("{} {}", rel, what);
            // Reported failure = panic or error at open, or an error at the query that needs the file.
            match Db::open(&opts, Some(dir.path())) {
                Err(db::Fault::CallerPanic(_)) => {}
                Err(f @ db::Fault::Hang { .. }) => {
                    let mut fl = Failure::from_fault(&f, &format!("opening a directory with {}", ctx)).tag("corrupt_open_hang");
                    fl.kind = if fl.panic.is_some() { "panic".into() } else { "hang".into() };
                    return Err(fl);
                }
                Ok(dbh) => {
                    let mut reported = false;
                    for (t, tm) in &model.tables {
                        let names: Vec<String> = tm.cols.keys().cloned().collect();
                        let sql = format!("SELECT {} FROM {}", names.iter().map(|n| hist::quote(n)).collect::<Vec<_>>().join(", "), hist::quote(t));
                        match dbh.query(&sql) {
                            Err(db::Fault::CallerPanic(_)) => reported = true,
                            Err(f) => return Err(Failure::from_fault(&f, &format!("`{}` on a directory with {}", sql, ctx)).tag("corrupt_query_hang")),
                            Ok(Err(_)) => reported = true,
                            Ok(Ok(out)) => {
                                if let Err(f) = hist::compare_table(tm, &out, &names, "after corruption", &sql) {
                                    return Err(Failure::mismatch(format!("{} was not reported and the table reads differently: {}", ctx, f.message)).tag("silent_corruption"));
                                }
                            }
                        }
                    }
                    if !reported {
                        return Err(Failure::mismatch(format!("{}: the database opened and answered every query with the original content; the corruption was never reported", ctx)).tag("corruption_unreported"));
                    }
                    db::clear_panics();
                    dbh.abandon();
                }
            }
            db::clear_panics();
            env.nontrivial(&format!("{}{:?}", ctx, req));
            env.sample(|| json!({"dbfile": rel, "corruption": what}));
        }
    }
    Ok(())
}

pub fn shard(ctx: &mut Ctx) {
    let n = ctx.tier.pick(1600, 40000);
    let n = ctx.share(n);
    ctx.stats.borrow_mut().exhaustive_subspaces.push("every single-bit flip and every truncation length of each stored blob of <= 600 bytes".to_string());
    ctx.drive("files", case_strategy(), n, check);
}

pub fn replay(_sub: &str, case: &Json, env: &mut CaseEnv) -> Result<(), Failure> {
    let c: Case = serde_json::from_value(case.clone()).map_err(bad_case)?;
    check(&c, env)
}
