//! C05 — ORDER BY, LIMIT and OFFSET return the right rows in the right order.

use std::collections::{BTreeMap, BTreeSet};

use proptest::collection::vec;
use proptest::prelude::*;
use serde::{Deserialize, Serialize};
use serde_json::{json, Value};

use crate::db;
use crate::eval::{self, bin, col, BinOp, Expr, Query, SelectItem};
use crate::gen::{self, ColType, Layout, LogicalTable};
use crate::model::Cell;
use crate::props::{bad_case, Entry};
use crate::qgen::{self, ColInfo, GenQuery, TableOpts};
use crate::runner::{pick_idx, CaseEnv, Ctx, Failure};

pub fn entry() -> Entry {
    Entry {
        id: "C05",
        shard,
        replay,
        level: "exploration",
        rule: "generated tables (1-5 partitions) and queries `SELECT id, keys.. FROM t [WHERE p] [ORDER BY 1-3 keys ASC/DESC] [LIMIT n] [OFFSET m]` with limits/offsets in 0..rows+2 weighted around half the partition length; judged by a validity predicate (length, key tuple at every position equals the reference order's, rows distinct and genuine, every cell equals the model); non-trivial = >= 2 distinct key values, a tie or NULL key, result non-empty and shorter than the table; distinct = (SQL, table fingerprint)",
        assumptions: &[
            "rows that tie on all keys may appear in any order; only key tuples per position are compared",
            "NULL sorts after every value ascending and first descending (as the property states)",
            "sort keys never contain NaN; float keys compare numerically (-0.0 = 0.0)",
        ],
        quick_budget_s: 900,
        thorough_budget_s: 7200,
        required_classes: &["order:1", "order:2", "order:3", "order:none", "dir:desc", "dir:asc", "limit:none", "limit:0", "limit:some", "offset:none", "offset:some", "offset:beyond", "key:nullable", "key:str", "key:float", "key:expr", "window:half_partition"],
        exhaustive_claim: false,
    }
}

#[derive(Clone, Debug, Serialize, Deserialize)]
pub struct Case {
    pub table: LogicalTable,
    pub layout: Layout,
    pub queries: Vec<GenQuery>,
}

fn order_key(infos: Vec<ColInfo>) -> BoxedStrategy<(Expr, Vec<String>)> {
    let n = infos.len();
    let ints: Vec<ColInfo> = infos.iter().filter(|c| c.ty == ColType::Int).cloned().collect();
    prop_oneof![
        5 => any::<u16>().prop_map(move |i| {
            let c = &infos[pick_idx(i, n)];
            let mut l = vec![match c.ty { ColType::Int => "key:int", ColType::Float => "key:float", ColType::Str => "key:str" }.to_string()];
            if c.nullable { l.push("key:nullable".into()); }
            (col(&c.name), l)
        }),
        1 => (any::<u16>(), 0u8..3).prop_map(move |(i, k)| {
            let c = &ints[pick_idx(i, ints.len())];
            let e = match k {
                0 => bin(BinOp::Mod, col(&c.name), Expr::Int(3)),
                1 => bin(BinOp::Div, col(&c.name), Expr::Int(10)),
                _ => bin(BinOp::Add, col(&c.name), Expr::Int(1)),
            };
            let mut l = vec!["key:expr".to_string()];
            if c.nullable { l.push("key:nullable".into()); }
            (e, l)
        }),
    ]
    .boxed()
}

pub fn query_strategy(t: &LogicalTable, layout: &Layout) -> BoxedStrategy<GenQuery> {
    let infos = qgen::col_infos(t);
    let rows = t.rows;
    // partition lengths (as ingested; compaction may merge them)
    let part_lens: Vec<usize> = layout.batch_ranges(rows).iter().map(|r| r.1 - r.0).collect();
    let lim_specials: Vec<u64> = {
        let mut v = vec![0u64, 1, 2, rows as u64, rows as u64 + 1, rows as u64 + 2];
        for l in &part_lens {
            let h = (*l / 2) as u64;
            v.extend([h.saturating_sub(1), h, h + 1, *l as u64]);
        }
        v
    };
    let lim_specials2 = lim_specials.clone();
    let half: BTreeSet<u64> = part_lens.iter().flat_map(|l| { let h = (*l / 2) as u64; vec![h.saturating_sub(1), h, h + 1] }).collect();
    let infos2 = infos.clone();
    (
        vec((order_key(infos.clone()), any::<bool>()), 0..=3),
        prop_oneof![2 => Just(None), 3 => proptest::sample::select(lim_specials).prop_map(Some), 2 => (0..=(rows as u64 + 2)).prop_map(Some)],
        prop_oneof![3 => Just(None), 2 => proptest::sample::select(lim_specials2).prop_map(Some), 2 => (0..=(rows as u64 + 2)).prop_map(Some)],
        proptest::option::weighted(0.3, qgen::atom(infos2)),
    )
        .prop_map(move |(keys, limit, offset, filter)| {
            let mut labels = vec![format!("order:{}", if keys.is_empty() { "none".to_string() } else { keys.len().to_string() })];
            let mut select = vec![SelectItem { expr: col("id"), alias: None }];
            let mut order_by = vec![];
            for (i, ((e, l), desc)) in keys.into_iter().enumerate() {
                labels.extend(l);
                labels.push(if desc { "dir:desc".into() } else { "dir:asc".into() });
                select.push(SelectItem { expr: e.clone(), alias: Some(format!("k{}", i)) });
                order_by.push((e, desc));
            }
            labels.push(match limit { None => "limit:none".into(), Some(0) => "limit:0".into(), Some(_) => "limit:some".to_string() });
            labels.push(match offset { None => "offset:none".into(), Some(o) if o as usize > rows => "offset:beyond".into(), Some(_) => "offset:some".to_string() });
            if limit.map(|l| half.contains(&l)).unwrap_or(false) || limit.zip(offset).map(|(l, o)| half.contains(&(l + o))).unwrap_or(false) {
                labels.push("window:half_partition".into());
            }
            let filter = filter.map(|(f, l)| { labels.extend(l); labels.push("filtered".into()); f });
            GenQuery { q: Query { select, table: "t".into(), filter, order_by, limit, offset }, labels }
        })
        .boxed()
}

fn case_strategy(max_rows: usize, nq: usize) -> BoxedStrategy<Case> {
    (qgen::query_table(TableOpts { max_rows, ..TableOpts::default() }), gen::layout(5))
        .prop_flat_map(move |(t, layout)| {
            let qs = vec(query_strategy(&t, &layout), 1..=nq);
            (Just(t), Just(layout), qs)
        })
        .prop_map(|(table, layout, queries)| Case { table, layout, queries })
        .boxed()
}

/// Query shapes the unchanged engine gets wrong (known findings), decided from the model.
pub fn kf_shape(gq: &GenQuery, t: &LogicalTable, layout: &Layout) -> Vec<&'static str> {
    let mut out = vec![];
    let q = &gq.q;
    let ranges = layout.batch_ranges(t.rows);
    let col_has_null = |e: &Expr| -> bool {
        let mut cs = vec![];
        e.columns(&mut cs);
        cs.iter().any(|c| t.cols.get(c).map(|(_, cells)| cells.iter().any(|x| x.is_null())).unwrap_or(true))
    };
    let col_null_in_some_batch = |e: &Expr| -> bool {
        let mut cs = vec![];
        e.columns(&mut cs);
        cs.iter().any(|c| match t.cols.get(c) {
            Some((_, cells)) => ranges.iter().any(|(lo, hi)| cells[*lo..*hi].iter().all(|x| x.is_null())),
            None => true,
        })
    };
    // ORDER BY <expression> while a partition is longer than batch_size: the sort sees one streamed batch.
    if q.order_by.iter().any(|(e, _)| !matches!(e, Expr::Col(_))) && t.rows >= layout.opts.batch_size {
        out.push("KF-orderby-expr-streaming");
    }
    // several keys of which a leading one holds NULLs: the order inside the NULL group is lost when partitions merge
    if q.order_by.len() >= 2 && q.order_by[..q.order_by.len() - 1].iter().any(|(e, _)| col_has_null(e)) {
        out.push("KF-orderby-multikey-null");
    }
    // a key column that is entirely NULL/absent in some partition while typed in another: merge has no common type
    if q.order_by.iter().any(|(e, _)| col_null_in_some_batch(e)) && ranges.len() > 1 {
        out.push("KF-orderby-null-typed-partition");
    }
    // arithmetic over a column that is Null-typed in some partition is declined (see C03 KF-null-typed-compare)
    if q.select.iter().any(|i| !matches!(i.expr, Expr::Col(_)) && col_null_in_some_batch(&i.expr)) {
        out.push("KF-null-typed-compare");
    }
    out
}

/// Validity predicate of DESIGN C05.
pub fn judge(q: &Query, rows: &[BTreeMap<String, Cell>], out_rows: &[Vec<Cell>]) -> Result<(usize, bool), String> {
    // full reference order without limit/offset
    let mut q0 = q.clone();
    q0.limit = None;
    q0.offset = None;
    let full = eval::run(&q0, rows).map_err(|e| format!("reference evaluator: {:?}", e))?;
    let off = q.offset.unwrap_or(0) as usize;
    let lim = q.limit.map(|l| l as usize).unwrap_or(usize::MAX);
    let want_len = lim.min(full.rows.len().saturating_sub(off));
    if out_rows.len() != want_len {
        return Err(format!("result has {} rows, expected min(limit, max(0, {} - offset)) = {}", out_rows.len(), full.rows.len(), want_len));
    }
    let nkeys = q.order_by.len();
    let by_id: BTreeMap<i64, usize> = full.rows.iter().enumerate().filter_map(|(i, r)| match r[0] { Cell::Int(id) => Some((id, i)), _ => None }).collect();
    let mut seen = BTreeSet::new();
    for (j, r) in out_rows.iter().enumerate() {
        if r.len() != 1 + nkeys {
            return Err(format!("row {} has {} cells, expected {}", j, r.len(), 1 + nkeys));
        }
        let id = match r[0] { Cell::Int(i) => i, _ => return Err(format!("row {}: id is {:?}", j, r[0])) };
        let src = match by_id.get(&id) { Some(s) => *s, None => return Err(format!("row {}: id {} is not a filtered row of the table (invented or filtered out)", j, id)) };
        if !seen.insert(id) {
            return Err(format!("row {}: id {} appears twice", j, id));
        }
        // every selected cell equals the model's value for that row
        for k in 0..nkeys {
            if !eval::result_cell_eq(&full.rows[src][1 + k], &r[1 + k], None) {
                return Err(format!("row {} (id {}): key {} is {}, the model has {}", j, id, k, r[1 + k].short(), full.rows[src][1 + k].short()));
            }
        }
        if nkeys == 0 {
            // ingestion order
            let want_id = &full.rows[off + j][0];
            if &r[0] != want_id {
                return Err(format!("without ORDER BY position {} holds id {}, ingestion order has {}", j, id, want_id.short()));
            }
        } else {
            // key tuple at position j equals the reference order's key tuple at offset + j
            let want_keys = &full.keys[off + j];
            let got_keys = &full.keys[src];
            if !want_keys.iter().zip(got_keys.iter()).all(|(a, b)| eval::key_eq(a, b)) {
                return Err(format!(
                    "position {} holds id {} with keys {:?}, the sorted order has keys {:?} there",
                    j, id,
                    got_keys.iter().map(|c| c.short()).collect::<Vec<_>>(),
                    want_keys.iter().map(|c| c.short()).collect::<Vec<_>>()
                ));
            }
        }
    }
    // non-triviality facts
    let mut distinct_keys: Vec<&Vec<Cell>> = vec![];
    let mut tie_or_null = false;
    for k in &full.keys {
        if k.iter().any(|c| c.is_null()) {
            tie_or_null = true;
        }
        if distinct_keys.iter().any(|d| d.iter().zip(k.iter()).all(|(a, b)| eval::key_eq(a, b))) {
            tie_or_null = true;
        } else {
            distinct_keys.push(k);
        }
    }
    let nontrivial = nkeys > 0 && distinct_keys.len() >= 2 && tie_or_null && !out_rows.is_empty() && out_rows.len() < rows.len();
    Ok((full.rows.len(), nontrivial))
}

pub fn check(case: &Case, env: &mut CaseEnv) -> Result<(), Failure> {
    let t = &case.table;
    env.classes(t.classes.iter().cloned());
    let cols: BTreeMap<String, Vec<Cell>> = t.cols.iter().map(|(k, v)| (k.clone(), v.1.clone())).collect();
    let rows = eval::rows_of(&cols, t.rows);
    let (dbh, _dir) = qgen::realise(t, &case.layout, "t")?;
    let fingerprint = crate::model::hash_str(&serde_json::to_string(&t.cols).unwrap_or_default());
    env.sample(|| json!({"rows": t.rows, "layout": case.layout.describe(t.rows), "queries": case.queries.iter().take(4).map(|q| q.q.sql()).collect::<Vec<_>>() }));
    for gq in &case.queries {
        let sql = gq.q.sql();
        env.classes(gq.labels.iter().cloned());
        // filters are judged by C03; here they only vary the filtered set. Skip shapes C03 lists as findings.
        if !crate::props::c03::kf_shape(gq, t, &case.layout).is_empty()
            || (env.kf_active("KF-connective-null") && !env.replay && eval::null_reaches_connective(&gq.q.filter, &rows))
        {
            env.excluded("C03-findings-in-filter");
            continue;
        }
        let mut skip = false;
        for id in kf_shape(gq, t, &case.layout) {
            if env.kf_active(id) && !env.replay {
                env.excluded(id);
                skip = true;
            }
        }
        if skip {
            continue;
        }
        let res = dbh.query(&sql).map_err(|f| Failure::from_fault(&f, &format!("`{}` [{}]", sql, case.layout.describe(t.rows))))?;
        match res {
            Ok(out) => {
                let got = out.rows_any();
                match judge(&gq.q, &rows, &got) {
                    Ok((_, nontrivial)) => {
                        // i64::MAX is the in-band NULL marker: an expression value that equals it reads as NULL in the
                        // row view and as the number in the column view (outside the value domain, not judged)
                        let norm = |rows: Vec<Vec<Cell>>| -> Vec<Vec<Cell>> { rows.into_iter().map(|r| r.into_iter().map(|c| if c == Cell::Int(i64::MAX) { Cell::Null } else { c }).collect()).collect() };
                        if out.rows.is_some() && norm(out.rows_from_columns()) != norm(got.clone()) {
                            return Err(Failure::mismatch(format!("`{}`: row view and column view differ", sql)).tag("views_differ"));
                        }
                        if nontrivial {
                            env.nontrivial(&format!("{}#{:x}", sql, fingerprint));
                        }
                    }
                    Err(EvalMsg) => {
                        if EvalMsg.starts_with("reference evaluator") {
                            env.declined();
                            continue;
                        }
                        return Err(Failure::mismatch(format!("`{}` [{}]: {}", sql, case.layout.describe(t.rows), EvalMsg))
                            .tag("order_limit")
                            .observed(json!({"sql": sql, "labels": gq.labels, "got": got.iter().take(40).collect::<Vec<_>>() })));
                    }
                }
            }
            Err(e) => {
                std::thread::sleep(std::time::Duration::from_millis(30));
                if let Some(p) = db::db_panics().first() {
                    return Err(Failure::db_panic(p, &format!("`{}` [{}] failed: {}", sql, case.layout.describe(t.rows), e.short())));
                }
                let f = Failure::mismatch(format!("`{}` [{}] failed: {}", sql, case.layout.describe(t.rows), e.short())).tag("query_error");
                if e.is_decline() && gq.q.filter.is_some() {
                    // declined because of the filter's typing (C03's business)
                    env.declined();
                    continue;
                }
                if env.kf_absorb("C05", &f).is_some() {
                    continue;
                }
                return Err(f);
            }
        }
    }
    if let Some(p) = db::db_panics().first() {
        return Err(Failure::db_panic(p, "after queries"));
    }
    dbh.close().map_err(|f| Failure::from_fault(&f, "close"))?;
    Ok(())
}

pub fn shard(ctx: &mut Ctx) {
    let (tables, max_rows, nq) = ctx.tier.pick((4000, 50, 10), (40000, 300, 20));
    let n = ctx.share(tables);
    ctx.drive("order", case_strategy(max_rows, nq), n, check);
}

pub fn replay(_sub: &str, case: &Value, env: &mut CaseEnv) -> Result<(), Failure> {
    let c: Case = serde_json::from_value(case.clone()).map_err(bad_case)?;
    check(&c, env)
}
