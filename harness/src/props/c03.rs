//! C03 — WHERE keeps exactly the rows for which the predicate is true.

use proptest::collection::vec;
use proptest::prelude::*;
use serde::{Deserialize, Serialize};
use serde_json::{json, Value};

use crate::db;
use crate::eval::{self, EvalErr, Query};
use crate::gen::{self, Layout, LogicalTable};
use crate::model::Cell;
use crate::props::{bad_case, Entry};
use crate::qgen::{self, GenQuery, TableOpts};
use crate::runner::{CaseEnv, Ctx, Failure};

pub fn entry() -> Entry {
    Entry {
        id: "C03",
        shard,
        replay,
        level: "exploration",
        rule: "generated tables (unique id + int/float/string columns, nullable or not, 1-4 partitions in buffer/flushed/reopened state) and predicate trees of depth <= 3 with constants drawn relative to the column contents; `SELECT id FROM t WHERE p` compared with a three-valued-logic reference evaluator; a query is non-trivial if it references an existing column and keeps neither no row nor every row, or its constant lies outside the column's value range; distinct = distinct (SQL text, table fingerprint)",
        assumptions: &[
            "int vs float comparison converts the int to f64 (as the engine documents)",
            "LIKE: % any sequence, _ one character, no escape; regex() is an unanchored search judged with the regex crate on the model's strings",
            "queries the engine declines with TypeError/NotImplemented are not counted as wrong answers unless they consist only of plain comparisons, IS NULL and AND/OR",
        ],
        quick_budget_s: 900,
        thorough_budget_s: 7200,
        required_classes: &[
            "const:present_value", "const:min_minus_1", "const:max_plus_1", "const:far_outside", "const:outside_narrow_encoding",
            "const:fractional", "const:absent_between", "const:before_first", "const:after_last", "isnull", "tree:and", "tree:or", "tree:not",
            "colcol:Int:Int", "colcol:Str:Str", "like:prefix", "regex",
        ],
        exhaustive_claim: false,
    }
}

#[derive(Clone, Debug, Serialize, Deserialize)]
pub struct Case {
    pub table: LogicalTable,
    pub layout: Layout,
    pub queries: Vec<GenQuery>,
}

fn case_strategy(max_rows: usize, nq: usize) -> BoxedStrategy<Case> {
    qgen::query_table(TableOpts { max_rows, ..TableOpts::default() })
        .prop_flat_map(move |t| {
            let infos = qgen::col_infos(&t);
            (Just(t), gen::layout(3), vec(qgen::predicate(infos), 1..=nq))
        })
        .prop_map(|(table, layout, preds)| {
            let queries = preds
                .into_iter()
                .map(|(p, labels)| GenQuery {
                    q: Query {
                        select: qgen::select_cols(&["id"]),
                        table: "t".into(),
                        filter: Some(p),
                        order_by: vec![],
                        limit: None,
                        offset: None,
                    },
                    labels,
                })
                .collect();
            Case { table, layout, queries }
        })
        .boxed()
}

/// Shapes the unchanged engine gets wrong (known findings); (finding id, tag).
pub fn kf_shape(q: &GenQuery, t: &LogicalTable, layout: &Layout) -> Vec<&'static str> {
    use crate::eval::Expr;
    let mut out = vec![];
    let f = match &q.q.filter {
        Some(f) => f,
        None => return out,
    };
    // LIKE patterns with `%%`: the engine's dialect reads a doubled percent sign as a literal `%`, the reference reads
    // two wildcards. The property says nothing about either, so such patterns are not judged (this is not a finding:
    // the id below is not in known_findings.json and is always active).
    if f.any(|e| matches!(e, Expr::Like(_, p, _) if p.contains("%%"))) {
        out.push("DIALECT-like-percent-percent");
    }
    let _ = (t, layout);
    out
}

pub fn check(case: &Case, env: &mut CaseEnv) -> Result<(), Failure> {
    let t = &case.table;
    env.classes(t.classes.iter().cloned());
    let cols: std::collections::BTreeMap<String, Vec<Cell>> =
        t.cols.iter().map(|(k, v)| (k.clone(), v.1.clone())).collect();
    let rows = eval::rows_of(&cols, t.rows);
    let (dbh, _dir) = qgen::realise(t, &case.layout, "t")?;
    let fingerprint = crate::model::hash_str(&serde_json::to_string(&t.cols).unwrap_or_default());
    env.sample(|| json!({"rows": t.rows, "layout": case.layout.describe(t.rows), "queries": case.queries.iter().take(4).map(|q| q.q.sql()).collect::<Vec<_>>() }));
    for gq in &case.queries {
        let sql = gq.q.sql();
        env.classes(gq.labels.iter().cloned());
        let mut excluded = false;
        for id in kf_shape(gq, t, &case.layout) {
            if (id.starts_with("DIALECT-") || env.kf_active(id)) && !env.replay {
                env.excluded(id);
                excluded = true;
            }
        }
        if excluded {
            continue;
        }
        // Known finding KF-connective-null: AND/OR do not implement three-valued logic over operands that are
        // NULL on some row (NULL OR TRUE is dropped, null maps are combined wrongly). Queries in which no
        // connective ever sees a NULL operand are judged by the property as written; the others are counted
        // as excluded and only checked for crashes, hangs and non-decline errors.
        let mut unjudged = false;
        if env.kf_active("KF-connective-null") && !env.replay && eval::null_reaches_connective(&gq.q.filter, &rows) {
            env.excluded("KF-connective-null");
            unjudged = true;
        }
        let expected = match eval::run(&gq.q, &rows) {
            Ok(e) => Some(e),
            Err(EvalErr::Type(_)) => None,
            Err(EvalErr::Overflow) => None,
        };
        let res = dbh.query(&sql).map_err(|f| Failure::from_fault(&f, &format!("`{}`", sql)))?;
        match (res, expected) {
            (Ok(_), Some(_)) if unjudged => {}
            (Ok(out), Some(exp)) => {
                let got: Vec<Cell> = out.rows_any().into_iter().map(|r| r.into_iter().next().unwrap_or(Cell::Null)).collect();
                let want: Vec<Cell> = exp.rows.iter().map(|r| r[0].clone()).collect();
                if got != want {
                    let missing: Vec<&Cell> = want.iter().filter(|c| !got.contains(c)).collect();
                    let extra: Vec<&Cell> = got.iter().filter(|c| !want.contains(c)).collect();
                    return Err(Failure::mismatch(format!(
                        "`{}` [{}]: kept ids {:?}, expected {:?} (missing {:?}, extra {:?})",
                        sql,
                        case.layout.describe(t.rows),
                        got.iter().map(|c| c.short()).collect::<Vec<_>>(),
                        want.iter().map(|c| c.short()).collect::<Vec<_>>(),
                        missing.iter().map(|c| c.short()).collect::<Vec<_>>(),
                        extra.iter().map(|c| c.short()).collect::<Vec<_>>(),
                    ))
                    .tag(if missing.is_empty() { "extra_rows" } else if extra.is_empty() { "missing_rows" } else { "wrong_rows" })

                    .observed(json!({"sql": sql, "labels": gq.labels})));
                }
                if out.rows_from_columns().len() != got.len() {
                    return Err(Failure::mismatch(format!("`{}`: column view has {} rows, row view {}", sql, out.rows_from_columns().len(), want.len())));
                }
                let mut refcols = vec![];
                gq.q.filter.as_ref().unwrap().columns(&mut refcols);
                let refs_existing = refcols.iter().any(|c| t.cols.contains_key(c));
                let outside = gq.labels.iter().any(|l| matches!(l.as_str(), "const:min_minus_1" | "const:max_plus_1" | "const:far_outside" | "const:outside_narrow_encoding" | "const:i64_edge" | "const:before_first" | "const:after_last" | "const:absent_between"));
                if refs_existing && ((!want.is_empty() && want.len() < t.rows) || outside) {
                    env.nontrivial(&format!("{}#{:x}", sql, fingerprint));
                }
            }
            (Ok(_), None) => {
                // outside the typed fragment according to the reference; the engine chose to answer: not judged
                env.declined();
            }
            (Err(e), exp) => {
                if e.is_decline() {
                    if e.short().contains("decoded: Null") {
                        let f = Failure::mismatch(format!("`{}`: declined: {}", sql, e.short())).tag("declined").tag("null_typed_operand");
                        if env.kf_absorb("C03", &f).is_some() {
                            continue;
                        }
                    }
                    let simple = gq.labels.iter().all(|l| {
                        l.starts_with("const:") || l == "unflipped" || l.starts_with("cmp:") || l.starts_with("operand:") || l.starts_with("colcol:") || l == "isnull" || l == "tree:and" || l == "tree:or"
                    }) && !gq.labels.iter().any(|l| l == "const:int_vs_float_column" || l == "flipped" || l == "unflipped" && false);
                    if simple && exp.is_some() {
                        return Err(Failure::mismatch(format!("`{}`: engine declined a plain comparison query: {}", sql, e.short())).tag("declined"));
                    }
                    env.declined();
                } else {
                    std::thread::sleep(std::time::Duration::from_millis(30));
                    if let Some(p) = db::db_panics().first() {
                        return Err(Failure::db_panic(p, &format!("`{}` failed: {}", sql, e.short())));
                    }
                    let mut f = Failure::mismatch(format!("`{}` [{}] failed: {}", sql, case.layout.describe(t.rows), e.short())).tag("query_error").observed(json!({"sql": sql, "labels": gq.labels}));
                    if gq.labels.iter().any(|l| l == "tree:not") || matches!(&gq.q.filter, Some(p) if p.any(|e| matches!(e, crate::eval::Expr::Like(_, _, true)))) {
                        f = f.tag("has_not");
                    }
                    if env.kf_absorb("C03", &f).is_some() {
                        continue;
                    }
                    return Err(f);
                }
            }
        }
    }
    if let Some(p) = db::db_panics().first() {
        return Err(Failure::db_panic(p, "after queries"));
    }
    dbh.close().map_err(|f| Failure::from_fault(&f, "close"))?;
    Ok(())
}

pub fn shard(ctx: &mut Ctx) {
    let (tables, max_rows, nq) = ctx.tier.pick((3200, 50, 12), (40000, 200, 24));
    let n = ctx.share(tables);
    ctx.drive("where", case_strategy(max_rows, nq), n, check);
}

pub fn replay(_sub: &str, case: &Value, env: &mut CaseEnv) -> Result<(), Failure> {
    let c: Case = serde_json::from_value(case.clone()).map_err(bad_case)?;
    check(&c, env)
}
