//! C04 — aggregates are computed per distinct group, once, over all rows.

use std::collections::BTreeMap;

use proptest::collection::vec;
use proptest::prelude::*;
use serde::{Deserialize, Serialize};
use serde_json::{json, Value};

use crate::db::{self, QErr};
use crate::eval::{self, bin, col, AggKind, BinOp, EvalErr, Expr, Query, SelectItem};
use crate::gen::{self, ColType, Layout, LogicalTable};
use crate::model::Cell;
use crate::props::{bad_case, Entry};
use crate::qgen::{self, agg, ColInfo, GenQuery, TableOpts};
use crate::runner::{pick_idx, CaseEnv, Ctx, Failure};

pub fn entry() -> Entry {
    Entry {
        id: "C04",
        shard,
        replay,
        level: "exploration",
        rule: "generated tables (1-5 partitions; key ranges on both sides of the 65 536 array/hash grouping switch) and queries mixing 0-3 grouping expressions with any subset of count/sum/min/max/avg over int and float columns and an optional WHERE; the result is compared as a multiset of rows with a reference group-by (ints exact, float sums within the reordering tolerance); non-trivial = >= 2 groups, a group with >= 2 rows, table in >= 2 partitions; distinct = (SQL, table fingerprint)",
        assumptions: &[
            "AVG over ints is the suite-documented integer quotient SUM/COUNT",
            "float sums are compared with tolerance 2(n+1)eps*sum|x|; -0.0 and 0.0 are one group",
            "with no grouping expression and no filtered row both `no row` and one row of NULL/0 are accepted",
        ],
        quick_budget_s: 900,
        thorough_budget_s: 7200,
        required_classes: &["groups:0", "groups:1", "groups:2", "groups:3", "agg:count", "agg:sum", "agg:min", "agg:max", "agg:avg", "key:int", "key:str", "key:float", "key:nullable", "key:expr", "key:wide_range", "agg:float_col", "agg:int_col", "filtered"],
        exhaustive_claim: false,
    }
}

#[derive(Clone, Debug, Serialize, Deserialize)]
pub struct Case {
    pub table: LogicalTable,
    pub layout: Layout,
    pub queries: Vec<GenQuery>,
}

fn group_key(infos: Vec<ColInfo>) -> BoxedStrategy<(Expr, Vec<String>)> {
    let n = infos.len();
    let ints: Vec<ColInfo> = infos.iter().filter(|c| c.ty == ColType::Int).cloned().collect();
    prop_oneof![
        6 => any::<u16>().prop_map(move |i| {
            let c = &infos[pick_idx(i, n)];
            let mut l = vec![match c.ty { ColType::Int => "key:int", ColType::Float => "key:float", ColType::Str => "key:str" }.to_string()];
            if c.nullable { l.push("key:nullable".into()); }
            if let (Some(Cell::Int(a)), Some(Cell::Int(b))) = (c.values.first(), c.values.last()) {
                if (*b as i128 - *a as i128) > 65536 { l.push("key:wide_range".into()); }
            }
            (col(&c.name), l)
        }),
        1 => (any::<u16>(), 0u8..2).prop_map(move |(i, k)| {
            let c = &ints[pick_idx(i, ints.len())];
            let e = match k {
                0 => bin(BinOp::Div, col(&c.name), Expr::Int(5)),
                _ => bin(BinOp::Mod, col(&c.name), Expr::Int(4)),
            };
            let mut l = vec!["key:expr".to_string()];
            if c.nullable { l.push("key:nullable".into()); }
            (e, l)
        }),
    ]
    .boxed()
}

fn aggregate(infos: Vec<ColInfo>) -> BoxedStrategy<(Expr, Vec<String>)> {
    let nums: Vec<ColInfo> = infos.iter().filter(|c| c.ty != ColType::Str).cloned().collect();
    (any::<u16>(), 0u8..7).prop_map(move |(i, k)| {
        let c = &nums[pick_idx(i, nums.len())];
        let tl = if c.ty == ColType::Float { "agg:float_col" } else { "agg:int_col" }.to_string();
        let nl = if c.nullable { "agg:nullable_input" } else { "agg:not_null_input" }.to_string();
        match k {
            0 => (agg(AggKind::Count, Expr::Int(1)), vec!["agg:count".into(), "agg:count_rows".into()]),
            1 => (agg(AggKind::Count, col(&c.name)), vec!["agg:count".into(), "agg:count_col".into(), nl]),
            2 | 3 => (agg(AggKind::Sum, col(&c.name)), vec!["agg:sum".into(), tl, nl]),
            4 => (agg(AggKind::Min, col(&c.name)), vec!["agg:min".into(), tl, nl]),
            5 => (agg(AggKind::Max, col(&c.name)), vec!["agg:max".into(), tl, nl]),
            _ => {
                if c.ty == ColType::Float {
                    (agg(AggKind::Avg, col(&c.name)), vec!["agg:avg".into(), "agg:avg_float".into(), nl])
                } else {
                    (agg(AggKind::Avg, col(&c.name)), vec!["agg:avg".into(), tl, nl])
                }
            }
        }
    })
    .boxed()
}

pub fn query_strategy(t: &LogicalTable) -> BoxedStrategy<GenQuery> {
    let infos = qgen::col_infos(t);
    (
        prop_oneof![3 => vec(group_key(infos.clone()), 0..=0), 5 => vec(group_key(infos.clone()), 1..=1), 2 => vec(group_key(infos.clone()), 2..=3)],
        vec(aggregate(infos.clone()), 1..=3),
        proptest::option::weighted(0.2, qgen::atom(infos.clone())),
        any::<bool>(),
    )
        .prop_map(|(keys, aggs, filter, aggs_first)| {
            let mut labels = vec![format!("groups:{}", keys.len())];
            let mut items = vec![];
            let mut seen = vec![];
            for (e, l) in keys {
                if seen.contains(&e) {
                    continue;
                }
                seen.push(e.clone());
                labels.extend(l);
                items.push(SelectItem { expr: e, alias: None });
            }
            let mut agg_items = vec![];
            for (i, (e, l)) in aggs.into_iter().enumerate() {
                labels.extend(l);
                agg_items.push(SelectItem { expr: e, alias: Some(format!("a{}", i)) });
            }
            let select = if aggs_first { agg_items.into_iter().chain(items).collect() } else { items.into_iter().chain(agg_items).collect() };
            let filter = filter.map(|(f, l)| { labels.extend(l); labels.push("filtered".into()); f });
            GenQuery { q: Query { select, table: "t".into(), filter, order_by: vec![], limit: None, offset: None }, labels }
        })
        .boxed()
}

fn case_strategy(max_rows: usize, nq: usize) -> BoxedStrategy<Case> {
    (qgen::query_table(TableOpts { max_rows, ..TableOpts::default() }), gen::layout(5))
        .prop_flat_map(move |(t, layout)| {
            let qs = vec(query_strategy(&t), 1..=nq);
            (Just(t), Just(layout), qs)
        })
        .prop_map(|(table, layout, queries)| Case { table, layout, queries })
        .boxed()
}

/// True if some SUM / AVG input's absolute values add up to more than i64::MAX over the filtered rows, i.e. a partial
/// sum can leave i64 although the total does not.
pub fn sum_may_overflow(q: &Query, rows: &[BTreeMap<String, Cell>]) -> bool {
    let mut inputs: Vec<&Expr> = vec![];
    for it in &q.select {
        if let Expr::Agg(k, e) = &it.expr {
            if matches!(k, AggKind::Sum | AggKind::Avg) {
                inputs.push(&**e);
            }
        }
    }
    inputs.iter().any(|e| {
        let mut total: u128 = 0;
        for r in rows {
            if let Some(f) = &q.filter {
                // a row whose filter the reference cannot decide may or may not be summed: count it
                if !matches!(eval::eval(f, r), Ok(Cell::Int(1)) | Err(_)) {
                    continue;
                }
            }
            if let Ok(Cell::Int(v)) = eval::eval(e, r) {
                total += v.unsigned_abs() as u128;
            }
        }
        total > i64::MAX as u128
    })
}

pub fn kf_shape(gq: &GenQuery, t: &LogicalTable, layout: &Layout) -> Vec<&'static str> {
    let mut out = vec![];
    let ranges = layout.batch_ranges(t.rows);
    let l = |s: &str| gq.labels.iter().any(|x| x == s);
    let null_in_some_batch = |e: &Expr| -> bool {
        let mut cs = vec![];
        e.columns(&mut cs);
        cs.iter().any(|c| match t.cols.get(c) {
            Some((_, cells)) => ranges.iter().any(|(lo, hi)| cells[*lo..*hi].iter().all(|x| x.is_null())),
            None => true,
        })
    };
    let has_null = |e: &Expr| -> bool {
        let mut cs = vec![];
        e.columns(&mut cs);
        cs.iter().any(|c| t.cols.get(c).map(|(_, cells)| cells.iter().any(|x| x.is_null())).unwrap_or(true))
    };
    if l("agg:avg_float") {
        out.push("KF-avg-float");
    }
    if gq.q.select.iter().any(|i| !i.expr.has_agg()) && t.rows >= layout.opts.batch_size {
        out.push("KF-groupby-streaming");
    }
    let keys: Vec<&Expr> = gq.q.select.iter().map(|i| &i.expr).filter(|e| !e.has_agg()).collect();
    if keys.len() >= 2 {
        out.push("KF-groupby-multikey");
    }
    if !keys.is_empty() && gq.q.filter.is_some() && ranges.len() > 1 {
        out.push("KF-groupby-filter-partitions");
    }
    for it in &gq.q.select {
        if !it.expr.has_agg() {
            let is_float = {
                let mut cs = vec![];
                it.expr.columns(&mut cs);
                cs.iter().any(|c| t.cols.get(c).map(|x| x.0 == ColType::Float).unwrap_or(false))
            };
            if is_float && has_null(&it.expr) {
                out.push("KF-group-nullable-float");
            }
            if has_null(&it.expr) && ranges.len() > 1 {
                out.push("KF-groupby-null-key-merge");
            }
            if null_in_some_batch(&it.expr) {
                out.push("KF-orderby-null-typed-partition");
            }
            if !matches!(it.expr, Expr::Col(_)) && null_in_some_batch(&it.expr) {
                out.push("KF-null-typed-compare");
            }
        } else if null_in_some_batch(&it.expr) {
            // aggregate over a column that is Null-typed in a partition
            out.push("KF-agg-null-typed-partition");
        }
    }
    out.sort();
    out.dedup();
    out
}

/// Multiset comparison of group rows.
pub fn compare(q: &Query, exp: &eval::Expected, got: &[Vec<Cell>], count_null_ok: bool) -> Result<(), String> {
    let ncols = q.select.len();
    let agg_cols: Vec<bool> = q.select.iter().map(|i| i.expr.has_agg()).collect();
    let is_count_col: Vec<bool> = q.select.iter().map(|i| matches!(&i.expr, Expr::Agg(AggKind::Count, e) if !matches!(**e, Expr::Int(_)))).collect();
    if exp.rows.is_empty() && q.select.iter().all(|i| i.expr.has_agg()) {
        // no grouping expression, nothing filtered: `no row` or one row of NULL/0
        if got.is_empty() {
            return Ok(());
        }
        if got.len() == 1 && got[0].iter().all(|c| matches!(c, Cell::Null | Cell::Int(0))) {
            return Ok(());
        }
        return Err(format!("no row passes the filter, result is {:?}", got));
    }
    if got.len() != exp.rows.len() {
        return Err(format!("{} groups returned, expected {}", got.len(), exp.rows.len()));
    }
    let mut used = vec![false; got.len()];
    for (ri, er) in exp.rows.iter().enumerate() {
        let mut found = false;
        for (gi, gr) in got.iter().enumerate() {
            if used[gi] || gr.len() != ncols {
                continue;
            }
            let ok = (0..ncols).all(|c| {
                if agg_cols[c] {
                    let tol = exp.float_sum_scale.get(&(ri, c)).cloned();
                    eval::result_cell_eq(&er[c], &gr[c], tol)
                        || (count_null_ok && is_count_col[c] && er[c] == Cell::Int(0) && gr[c] == Cell::Null)
                        // AVG: the exact mean is accepted as well as the integer quotient; AVG of an all-NULL
                        // group is SUM/COUNT = NULL/NULL in the engine (KF-count-all-null) and is not judged
                        || matches!((&q.select[c].expr, &er[c], &gr[c]), (Expr::Agg(AggKind::Avg, _), Cell::Int(_), Cell::Float(_)))
                        || (count_null_ok && matches!((&q.select[c].expr, &er[c]), (Expr::Agg(AggKind::Avg, _), Cell::Null)))
                } else {
                    eval::key_eq(&er[c], &gr[c])
                }
            });
            if ok {
                used[gi] = true;
                found = true;
                break;
            }
        }
        if !found {
            return Err(format!(
                "expected group row {:?} not found (or found with different aggregates) in {:?}",
                er.iter().map(|c| c.short()).collect::<Vec<_>>(),
                got.iter().take(12).map(|r| r.iter().map(|c| c.short()).collect::<Vec<_>>()).collect::<Vec<_>>()
            ));
        }
    }
    Ok(())
}

pub fn check(case: &Case, env: &mut CaseEnv) -> Result<(), Failure> {
    let t = &case.table;
    env.classes(t.classes.iter().cloned());
    let cols: BTreeMap<String, Vec<Cell>> = t.cols.iter().map(|(k, v)| (k.clone(), v.1.clone())).collect();
    let rows = eval::rows_of(&cols, t.rows);
    let (dbh, _dir) = qgen::realise(t, &case.layout, "t")?;
    let fingerprint = crate::model::hash_str(&serde_json::to_string(&t.cols).unwrap_or_default());
    let nparts = case.layout.batch_ranges(t.rows).len();
    env.sample(|| json!({"rows": t.rows, "layout": case.layout.describe(t.rows), "queries": case.queries.iter().take(4).map(|q| q.q.sql()).collect::<Vec<_>>() }));
    for gq in &case.queries {
        let sql = gq.q.sql();
        env.classes(gq.labels.iter().cloned());
        if !crate::props::c03::kf_shape(gq, t, &case.layout).is_empty()
            || (env.kf_active("KF-connective-null") && !env.replay && eval::null_reaches_connective(&gq.q.filter, &rows))
        {
            env.excluded("C03-findings-in-filter");
            continue;
        }
        let mut skip = false;
        for id in kf_shape(gq, t, &case.layout) {
            if env.kf_active(id) && !env.replay {
                env.excluded(id);
                skip = true;
            }
        }
        if skip {
            continue;
        }
        let expected = eval::run(&gq.q, &rows);
        let ctx = format!("`{}` [{}]", sql, case.layout.describe(t.rows));
        let res = dbh.query(&sql).map_err(|f| Failure::from_fault(&f, &ctx))?;
        match (res, expected) {
            (Ok(out), Ok(exp)) => {
                let got = out.rows_any();
                let count_null_ok = env.kf_active("KF-count-all-null");
                if let Err(msg) = compare(&gq.q, &exp, &got, count_null_ok) {
                    return Err(Failure::mismatch(format!("{}: {}", ctx, msg)).tag("aggregate").observed(json!({"sql": sql, "labels": gq.labels})));
                }
                // column view must describe the same cells as the row view
                let cv = out.rows_from_columns();
                if out.rows.is_some() && cv != got {
                    let f = Failure::mismatch(format!("{}: row view and column view differ: rows {:?} columns {:?}", ctx,
                        got.iter().take(6).map(|r| r.iter().map(|c| c.short()).collect::<Vec<_>>()).collect::<Vec<_>>(),
                        cv.iter().take(6).map(|r| r.iter().map(|c| c.short()).collect::<Vec<_>>()).collect::<Vec<_>>())).tag("views_differ");
                    if env.kf_absorb("C04", &f).is_none() {
                        return Err(f);
                    }
                }
                let ngroups = exp.rows.len();
                let has_multi = {
                    let mut q0 = gq.q.clone();
                    q0.select = vec![SelectItem { expr: agg(AggKind::Count, Expr::Int(1)), alias: Some("c".into()) }]
                        .into_iter()
                        .chain(gq.q.select.iter().filter(|i| !i.expr.has_agg()).cloned())
                        .collect();
                    eval::run(&q0, &rows).map(|e| e.rows.iter().any(|r| matches!(r[0], Cell::Int(c) if c >= 2))).unwrap_or(false)
                };
                if ngroups >= 2 && has_multi && nparts >= 2 {
                    env.nontrivial(&format!("{}#{:x}", sql, fingerprint));
                }
            }
            (Ok(_), Err(EvalErr::Type(_))) => env.declined(),
            (Ok(out), Err(EvalErr::Overflow)) => {
                return Err(Failure::mismatch(format!("{}: exact result overflows i64 but the engine returned {:?}", ctx, out.rows_any().iter().take(4).collect::<Vec<_>>())).tag("silent_overflow"));
            }
            (Err(QErr::Overflow), Err(EvalErr::Overflow)) => {}
            // the reference cannot judge the query (e.g. an integer/float comparison that depends on rounding): an
            // overflow error is not evidence of anything
            (Err(QErr::Overflow), Err(EvalErr::Type(_))) => env.declined(),
            (Err(QErr::Overflow), Ok(_)) if sum_may_overflow(&gq.q, &rows) => {
                // the total fits, but a partial sum (in whatever order the engine adds) may not: an overflow
                // error is one of the two outcomes C06 allows for SUM
                env.class("outcome:partial_sum_may_overflow");
            }
            (Err(e), exp) => {
                std::thread::sleep(std::time::Duration::from_millis(30));
                if let Some(p) = db::db_panics().first() {
                    return Err(Failure::db_panic(p, &format!("{} failed: {}", ctx, e.short())));
                }
                if e.is_decline() && (gq.q.filter.is_some() || exp.is_err()) {
                    env.declined();
                    continue;
                }
                let mut f = Failure::mismatch(format!("{} failed: {}", ctx, e.short())).tag("query_error");
                if e.is_decline() {
                    f = f.tag("declined");
                    if e.short().contains("decoded: Null") {
                        f = f.tag("null_typed_operand");
                    }
                }
                if env.kf_absorb("C04", &f).is_some() {
                    continue;
                }
                return Err(f);
            }
        }
    }
    if let Some(p) = db::db_panics().first() {
        return Err(Failure::db_panic(p, "after queries"));
    }
    dbh.close().map_err(|f| Failure::from_fault(&f, "close"))?;
    Ok(())
}

pub fn shard(ctx: &mut Ctx) {
    let (tables, max_rows, nq) = ctx.tier.pick((4000, 50, 8), (40000, 300, 16));
    let n = ctx.share(tables);
    ctx.drive("groupby", case_strategy(max_rows, nq), n, check);
}

pub fn replay(_sub: &str, case: &Value, env: &mut CaseEnv) -> Result<(), Failure> {
    let c: Case = serde_json::from_value(case.clone()).map_err(bad_case)?;
    check(&c, env)
}
