//! C13 — columns may come and go; the catalogue lists each exactly once.

use proptest::prelude::*;
use serde::{Deserialize, Serialize};
use serde_json::{json, Value};

use crate::db::{self, DbOpts};
use crate::gen::{self, ColType};
use crate::hist::{self, History, Op, OpWeights, Run, Schema};
use crate::props::{bad_case, Entry};
use crate::runner::{CaseEnv, Ctx, Failure};

pub fn entry() -> Entry {
    Entry {
        id: "C13",
        shard,
        replay,
        level: "exploration",
        rule: "generated histories of batches whose column sets are arbitrary subsets of a name pool (case pairs a/A, non-ASCII, > 64 bytes, names sorting before/after all others, prefixes of each other; in a quarter of the histories a pool of even-length hex strings in lower, upper and mixed case, which the string codec of the catalogue table packs), interleaved with force_flush (combine factor {0,1,4,999}) and restart over 1-3 tables; after every step SELECT * (sorted column names, every cell, NULL where a batch did not mention the column), the per-table column list (_meta_columns_<t>) and the table list (_meta_tables) are compared with the model, each name exactly once; after every restart and at the end every column is also read on its own (SELECT c, and split by c IS NULL / c IS NOT NULL) and LocustDB::search_column_names is compared with the model for four literals; non-trivial = a column first seen after a flush or restart and a batch lacking a known column; distinct = canonical history text",
        assumptions: &["column names containing a double quote are not generated (SQL quoting in this dialect cannot express them)", "each column name keeps one value type"],
        quick_budget_s: 900,
        thorough_budget_s: 7200,
        required_classes: &["name:case_pair", "name:non_ascii", "name:long", "name:sorts_first", "name:sorts_last", "name:prefix", "name:hex_upper", "name:hex_lower", "name:hex_mixed", "op:flush", "op:restart", "late_column:after_flush", "late_column:after_restart", "batch:lacks_known_column", "pcf:0", "pcf:1", "pcf:4", "pcf:999", "lane:single_column", "lane:single_column_partly_null", "lane:search_column_names"],
        exhaustive_claim: false,
    }
}

#[derive(Clone, Debug, Serialize, Deserialize)]
pub struct Case {
    pub history: History,
}

pub fn name_pool() -> Vec<(String, ColType, &'static str)> {
    let long = format!("long_{}", "x".repeat(70));
    vec![
        ("a".into(), ColType::Int, "name:case_pair"),
        ("A".into(), ColType::Str, "name:case_pair"),
        ("ab".into(), ColType::Float, "name:prefix"),
        ("abc".into(), ColType::Int, "name:prefix"),
        ("größe".into(), ColType::Int, "name:non_ascii"),
        ("列".into(), ColType::Str, "name:non_ascii"),
        (long, ColType::Int, "name:long"),
        ("!first".into(), ColType::Str, "name:sorts_first"),
        ("~last".into(), ColType::Float, "name:sorts_last"),
        ("with space".into(), ColType::Int, "name:space"),
        ("m_0".into(), ColType::Str, "name:plain"),
        ("timestamp".into(), ColType::Int, "name:plain"),
    ]
}

/// Names that look like data the string codecs treat specially: the catalogue table `_meta_columns_<t>` is
/// itself a one-string-column table, so a batch of new names that are all even-length hex strings is
/// hex-packed (lower case, upper case) or must be left alone (mixed case) like any other string column.
pub fn hex_name_pool() -> Vec<(String, ColType, &'static str)> {
    vec![
        ("DEADBEEF".into(), ColType::Int, "name:hex_upper"),
        ("deadbeef".into(), ColType::Str, "name:hex_lower"),
        ("DeadBeef".into(), ColType::Float, "name:hex_mixed"),
        ("00c0ffee".into(), ColType::Int, "name:hex_lower"),
        ("00C0FFEE".into(), ColType::Str, "name:hex_upper"),
        ("0123456789".into(), ColType::Int, "name:hex_digits"),
        ("cafe".into(), ColType::Float, "name:hex_lower"),
        ("abcdefABCDEF".into(), ColType::Str, "name:hex_mixed"),
    ]
}

fn hex_schema() -> Schema {
    Schema { columns: hex_name_pool().into_iter().map(|(n, t, _)| (n, t)).collect(), mention_pct: 40, ..schema() }
}

fn schema() -> Schema {
    Schema {
        tables: vec!["t0".into(), "T1".into(), "tab le".into()],
        columns: name_pool().into_iter().map(|(n, t, _)| (n, t)).collect(),
        mention_pct: 35,
        max_rows: 5,
        nullable: true,
        rich_values: false,
    }
}

fn opts() -> BoxedStrategy<DbOpts> {
    (gen::db_opts(), prop_oneof![Just(0u64), Just(1), Just(4), Just(999)])
        .prop_map(|(o, pcf)| DbOpts { partition_combine_factor: pcf, threads: o.threads.max(2), ..o })
        .boxed()
}

fn case_strategy(max_ops: usize) -> BoxedStrategy<Case> {
    let w = || OpWeights { ingest: 6, flush: 3, evict: 1, restart: 2 };
    let ops = prop_oneof![
        3 => hist::ops(schema(), w(), 1..max_ops),
        1 => hist::ops(hex_schema(), w(), 1..max_ops),
    ];
    (opts(), ops)
        .prop_map(|(opts, ops)| Case { history: History { opts, ops } })
        .boxed()
}

pub fn check(case: &Case, env: &mut CaseEnv) -> Result<(), Failure> {
    let h = &case.history;
    env.class(&format!("pcf:{}", h.opts.partition_combine_factor));
    env.sample(|| json!({"history": h.describe()}));
    let mut pool = name_pool();
    pool.extend(hex_name_pool());
    let dir = db::temp_dir("c13");
    let mut run = Run::start(&h.opts, dir.path())?;
    let mut since_flush = true; // no flush/restart yet: first columns are not "late"
    let mut last_maintenance: Option<&'static str> = None;
    let mut late = false;
    let mut lacking = false;
    let _ = &mut since_flush;
    for (i, op) in h.ops.iter().enumerate() {
        env.class(&format!("op:{}", op.kind()));
        match op {
            Op::Ingest(req) => {
                for (t, b) in &req.tables {
                    for name in b.cols.keys() {
                        if let Some((_, _, label)) = pool.iter().find(|p| &p.0 == name) {
                            env.class(label);
                        }
                    }
                    if let Some(tm) = run.model.tables.get(t) {
                        if b.cols.keys().any(|c| !tm.cols.contains_key(c)) {
                            if let Some(m) = last_maintenance {
                                env.class(&format!("late_column:after_{}", m));
                                late = true;
                            }
                        }
                        if tm.cols.keys().any(|c| !b.cols.contains_key(c)) {
                            env.class("batch:lacks_known_column");
                            lacking = true;
                        }
                    }
                }
            }
            Op::Flush => last_maintenance = Some("flush"),
            Op::Restart => last_maintenance = Some("restart"),
            Op::Evict => {}
        }
        run.apply(i, op)?;
        let stage = format!("after step {} ({}) of [{}]", i, op.kind(), h.describe());
        hist::check_content(run.db(), &run.model, &stage)?;
        hist::check_catalogue(run.db(), &run.model, &stage)?;
        if matches!(op, Op::Restart) || i + 1 == h.ops.len() {
            check_each_column(run.db(), &run.model, &stage, env)?;
        }
        if let Some(p) = db::db_panics().first() {
            return Err(Failure::db_panic(p, &stage));
        }
    }
    if late && lacking {
        env.nontrivial(&h.describe());
    }
    run.finish()
}

/// Per-column lane: every column read on its own (so a partition that lacks it contributes nothing but
/// its length), split by presence with IS NULL / IS NOT NULL, and the catalogue accessor
/// `search_column_names` (all names, and names containing a literal).
fn check_each_column(dbh: &db::Db, model: &crate::model::DbModel, stage: &str, env: &mut CaseEnv) -> Result<(), Failure> {
    use crate::model::Cell;
    let run_q = |sql: &str| -> Result<db::QOut, Failure> {
        match dbh.query(sql).map_err(|f| Failure::from_fault(&f, &format!("{}: `{}`", stage, sql)))? {
            Ok(o) => Ok(o),
            Err(e) => {
                std::thread::sleep(std::time::Duration::from_millis(30));
                if let Some(p) = db::db_panics().first() {
                    return Err(Failure::db_panic(p, &format!("{}: `{}` failed: {}", stage, sql, e.short())));
                }
                Err(Failure::mismatch(format!("{}: `{}` failed: {}", stage, sql, e.short())).tag("query_error"))
            }
        }
    };
    for (tname, tm) in &model.tables {
        let t = hist::quote(tname);
        for (cname, cells) in &tm.cols {
            let c = hist::quote(cname);
            let one = vec![cname.clone()];
            let sql = format!("SELECT {} FROM {}", c, t);
            hist::compare_table(tm, &run_q(&sql)?, &one, stage, &sql)?;
            env.class("lane:single_column");
            let nulls = cells.iter().filter(|x| matches!(x, Cell::Null)).count();
            if nulls > 0 && nulls < cells.len() {
                env.class("lane:single_column_partly_null");
            }
            for (pred, keep_null) in [("IS NULL", true), ("IS NOT NULL", false)] {
                let sql = format!("SELECT {} FROM {} WHERE {} {}", c, t, c, pred);
                let want: Vec<Cell> = cells.iter().filter(|x| matches!(x, Cell::Null) == keep_null).cloned().collect();
                let sub = crate::model::TableModel { rows: want.len(), cols: [(cname.clone(), want)].into_iter().collect() };
                hist::compare_table(&sub, &run_q(&sql)?, &one, stage, &sql)?;
            }
        }
        let all: Vec<String> = tm.cols.keys().cloned().collect();
        for pat in ["", "a", "ab", "x"] {
            let mut want: Vec<String> = all.iter().filter(|n| n.contains(pat)).cloned().collect();
            want.sort();
            let got = dbh
                .search_column_names(tname, pat)
                .map_err(|f| Failure::from_fault(&f, &format!("{}: search_column_names({:?}, {:?})", stage, tname, pat)))?;
            match got {
                Ok(mut g) => {
                    g.sort();
                    if g != want {
                        return Err(Failure::mismatch(format!("{}: search_column_names({:?}, {:?}) = {:?}, expected each of {:?} exactly once", stage, tname, pat, g, want)).tag("search_column_names"));
                    }
                }
                // an empty catalogue table answers with a non-string (empty) column, which the accessor reports as an error
                Err(_) if want.is_empty() => {}
                Err(e) => return Err(Failure::mismatch(format!("{}: search_column_names({:?}, {:?}) failed: {}", stage, tname, pat, e)).tag("search_column_names")),
            }
            env.class("lane:search_column_names");
        }
    }
    Ok(())
}

pub fn shard(ctx: &mut Ctx) {
    let (n, max_ops) = ctx.tier.pick((1200, 12), (30000, 16));
    let n = ctx.share(n);
    ctx.drive("history", case_strategy(max_ops), n, check);
}

pub fn replay(_sub: &str, case: &Value, env: &mut CaseEnv) -> Result<(), Failure> {
    let c: Case = serde_json::from_value(case.clone()).map_err(bad_case)?;
    check(&c, env)
}
