//! C06 — integer arithmetic is exact or the query fails; it never wraps.

use std::collections::BTreeMap;

use proptest::collection::vec;
use proptest::prelude::*;
use serde::{Deserialize, Serialize};
use serde_json::{json, Value};

use crate::db::{self, QErr};
use crate::eval::{self, bin, col, AggKind, BinOp, Expr, Query, SelectItem};
use crate::gen::{self, ColType, Layout, LogicalTable};
use crate::model::Cell;
use crate::props::{bad_case, Entry};
use crate::qgen::{self, agg, ColInfo, GenQuery, TableOpts};
use crate::runner::{pick_idx, CaseEnv, Ctx, Failure};

pub fn entry() -> Entry {
    Entry {
        id: "C06",
        shard,
        replay,
        level: "exploration",
        rule: "generated int columns at the edges of u8/u16/u32/i64 and of their offset encodings (with NULLs), expression trees of depth <= 3 over columns and constants with + - * / %, evaluated per row (`SELECT id, e`) and under SUM with 0-1 grouping keys over 1-5 partitions; oracle = i128 arithmetic: stepwise-representable results must come back exactly, results whose exact value leaves i64 (or division by zero) must fail with Overflow, results that fit only because an intermediate would overflow may do either; non-trivial = some intermediate within a factor 4 of an i64/u32/u16/u8 boundary or an actual overflow; distinct = (SQL, table fingerprint)",
        assumptions: &[
            "/ truncates toward zero and % takes the dividend's sign",
            "SUM may fail with Overflow whenever the sum of absolute values exceeds i64 (some summation order overflows)",
        ],
        quick_budget_s: 900,
        thorough_budget_s: 7200,
        required_classes: &["op:add", "op:sub", "op:mul", "op:div", "op:mod", "outcome:exact", "outcome:overflow", "outcome:div_by_zero", "outcome:null_operand", "shape:row", "shape:sum", "shape:sum_grouped", "near:i64", "near:u32", "near:u8"],
        exhaustive_claim: false,
    }
}

#[derive(Clone, Debug, Serialize, Deserialize)]
pub struct Case {
    pub table: LogicalTable,
    pub layout: Layout,
    pub queries: Vec<GenQuery>,
}

fn arith_expr(ints: Vec<ColInfo>) -> BoxedStrategy<Expr> {
    let n = ints.len();
    let ints2 = ints.clone();
    let leaf = prop_oneof![
        5 => any::<u16>().prop_map(move |i| col(&ints[pick_idx(i, n)].name)),
        2 => prop_oneof![Just(0i64), Just(1), Just(2), Just(3), Just(-1), Just(10), Just(255), Just(256), Just(65535), Just(65536), Just(1 << 31), Just(1 << 32), Just(i64::MAX - 1), Just(i64::MIN + 1), Just(1i64 << 62), -1000i64..1000].prop_map(Expr::Int),
        1 => (any::<u16>(), any::<u16>(), -2i64..3).prop_map(move |(i, p, d)| {
            // constant near a value of the column
            let c = &ints2[pick_idx(i, ints2.len())];
            match c.values.get(pick_idx(p, c.values.len().max(1))) {
                Some(Cell::Int(x)) => Expr::Int(x.saturating_add(d).clamp(i64::MIN + 1, i64::MAX - 1)),
                _ => Expr::Int(d),
            }
        }),
    ];
    leaf.prop_recursive(3, 8, 2, |inner| {
        (prop_oneof![Just(BinOp::Add), Just(BinOp::Sub), Just(BinOp::Mul), Just(BinOp::Div), Just(BinOp::Mod)], inner.clone(), inner)
            .prop_map(|(op, a, b)| bin(op, a, b))
    })
    .boxed()
}

/// The engine does not type constant-op-constant subexpressions; fold them (keeps the tree otherwise).
fn fold_consts(e: Expr) -> Expr {
    match e {
        Expr::Bin(op, a, b) => {
            let (a, b) = (fold_consts(*a), fold_consts(*b));
            if let (Expr::Int(x), Expr::Int(y)) = (&a, &b) {
                let (x, y) = (*x as i128, *y as i128);
                let v = match op {
                    BinOp::Add => Some(x + y),
                    BinOp::Sub => Some(x - y),
                    BinOp::Mul => Some(x * y),
                    BinOp::Div if y != 0 => Some(x / y),
                    BinOp::Mod if y != 0 => Some(x % y),
                    _ => None,
                };
                return match v {
                    Some(v) if v > i64::MIN as i128 && v < i64::MAX as i128 => Expr::Int(v as i64),
                    _ => a,
                };
            }
            bin(op, a, b)
        }
        e => e,
    }
}

fn query_strategy(t: &LogicalTable) -> BoxedStrategy<GenQuery> {
    let infos = qgen::col_infos(t);
    let ints: Vec<ColInfo> = infos.iter().filter(|c| c.ty == ColType::Int).cloned().collect();
    let keys: Vec<ColInfo> = infos.iter().filter(|c| c.ty == ColType::Str && !c.nullable).cloned().collect();
    (arith_expr(ints).prop_map(fold_consts), 0u8..10, any::<u16>())
        .prop_filter("expression must reference a column", |(e, _, _)| {
            let mut cs = vec![];
            e.columns(&mut cs);
            !cs.is_empty()
        })
        .prop_map(move |(e, shape, k)| {
            let mut labels = vec![];
            let q = if shape < 6 {
                labels.push("shape:row".to_string());
                Query { select: vec![SelectItem { expr: col("id"), alias: None }, SelectItem { expr: e, alias: Some("e".into()) }], table: "t".into(), filter: None, order_by: vec![], limit: None, offset: None }
            } else if shape < 8 || keys.is_empty() {
                labels.push("shape:sum".to_string());
                Query { select: vec![SelectItem { expr: agg(AggKind::Sum, e), alias: Some("s".into()) }], table: "t".into(), filter: None, order_by: vec![], limit: None, offset: None }
            } else {
                labels.push("shape:sum_grouped".to_string());
                let kc = &keys[pick_idx(k, keys.len())];
                Query { select: vec![SelectItem { expr: col(&kc.name), alias: None }, SelectItem { expr: agg(AggKind::Sum, e), alias: Some("s".into()) }], table: "t".into(), filter: None, order_by: vec![], limit: None, offset: None }
            };
            GenQuery { q, labels }
        })
        .boxed()
}

fn case_strategy(max_rows: usize, nq: usize) -> BoxedStrategy<Case> {
    (qgen::query_table(TableOpts { max_rows, wide_ints: true, late_column: false, ..TableOpts::default() }), gen::layout(5))
        .prop_flat_map(move |(t, layout)| {
            let qs = vec(query_strategy(&t), 1..=nq);
            (Just(t), Just(layout), qs)
        })
        .prop_map(|(table, layout, queries)| Case { table, layout, queries })
        .boxed()
}

/// Exact evaluation in i128. Ok(None) = NULL. Err(true) = division by zero, Err(false) = leaves i128.
#[derive(Clone, Copy, Debug, PartialEq)]
enum Ex {
    Null,
    Val(i128),
    DivZero,
    Huge,
}

struct Facts {
    hit_sentinel: bool,
    stepwise_ok: bool,
    near: Vec<&'static str>,
    saw_null: bool,
}

fn note_near(v: i128, f: &mut Facts) {
    let a = v.unsigned_abs();
    for (lim, name) in [(i64::MAX as u128, "near:i64"), (u32::MAX as u128, "near:u32"), (u16::MAX as u128, "near:u16"), (u8::MAX as u128, "near:u8")] {
        if a >= lim / 4 && a <= lim.saturating_mul(4) {
            if !f.near.contains(&name) {
                f.near.push(name);
            }
            break;
        }
    }
}

fn exact(e: &Expr, row: &BTreeMap<String, Cell>, f: &mut Facts) -> Ex {
    match e {
        Expr::Col(c) => match row.get(c) {
            Some(Cell::Int(i)) => {
                note_near(*i as i128, f);
                Ex::Val(*i as i128)
            }
            _ => {
                f.saw_null = true;
                Ex::Null
            }
        },
        Expr::Int(i) => Ex::Val(*i as i128),
        Expr::Bin(op, a, b) => {
            let (x, y) = (exact(a, row, f), exact(b, row, f));
            match (x, y) {
                (Ex::DivZero, _) | (_, Ex::DivZero) => Ex::DivZero,
                (Ex::Huge, _) | (_, Ex::Huge) => Ex::Huge,
                (Ex::Null, _) | (_, Ex::Null) => Ex::Null,
                (Ex::Val(p), Ex::Val(q)) => {
                    let r = match op {
                        BinOp::Add => p.checked_add(q),
                        BinOp::Sub => p.checked_sub(q),
                        BinOp::Mul => p.checked_mul(q),
                        BinOp::Div => {
                            if q == 0 {
                                f.stepwise_ok = false;
                                return Ex::DivZero;
                            }
                            p.checked_div(q)
                        }
                        BinOp::Mod => {
                            if q == 0 {
                                f.stepwise_ok = false;
                                return Ex::DivZero;
                            }
                            p.checked_rem(q)
                        }
                        _ => None,
                    };
                    match r {
                        None => {
                            f.stepwise_ok = false;
                            Ex::Huge
                        }
                        Some(v) => {
                            // i64::MAX is the reserved NULL marker: an engine may treat reaching it as overflow
                            if v < i64::MIN as i128 || v >= i64::MAX as i128 {
                                f.stepwise_ok = false;
                            }
                            if v == i64::MAX as i128 {
                                f.hit_sentinel = true;
                            }
                            note_near(v, f);
                            Ex::Val(v)
                        }
                    }
                }
            }
        }
        _ => Ex::Huge,
    }
}

fn fits(v: i128) -> bool {
    v >= i64::MIN as i128 && v <= i64::MAX as i128
}

pub fn check(case: &Case, env: &mut CaseEnv) -> Result<(), Failure> {
    let t = &case.table;
    env.classes(t.classes.iter().cloned());
    let cols: BTreeMap<String, Vec<Cell>> = t.cols.iter().map(|(k, v)| (k.clone(), v.1.clone())).collect();
    let rows = eval::rows_of(&cols, t.rows);
    let (dbh, _dir) = qgen::realise(t, &case.layout, "t")?;
    let fingerprint = crate::model::hash_str(&serde_json::to_string(&t.cols).unwrap_or_default());
    env.sample(|| json!({"rows": t.rows, "layout": case.layout.describe(t.rows), "queries": case.queries.iter().take(4).map(|q| q.q.sql()).collect::<Vec<_>>() }));
    for gq in &case.queries {
        let sql = gq.q.sql();
        let ctx = format!("`{}` [{}]", sql, case.layout.describe(t.rows));
        env.classes(gq.labels.iter().cloned());
        let is_row = gq.labels.iter().any(|l| l == "shape:row");
        let grouped = gq.labels.iter().any(|l| l == "shape:sum_grouped");
        let e = if is_row { &gq.q.select[1].expr } else { match &gq.q.select.last().unwrap().expr { Expr::Agg(_, e) => &**e, _ => unreachable!() } };
        {
            let mut ops = vec![];
            collect_ops(e, &mut ops);
            env.classes(ops.into_iter().map(|o| o.to_string()));
        }
        if grouped && t.rows >= case.layout.opts.batch_size && env.kf_active("KF-groupby-streaming") && !env.replay {
            env.excluded("KF-groupby-streaming");
            continue;
        }
        if !is_row && t.rows >= case.layout.opts.batch_size && env.kf_active("KF-orderby-expr-streaming") && !env.replay {
            // aggregates over an arithmetic expression share the streamed-expression defect
            env.excluded("KF-expr-streaming");
            continue;
        }
        {
            // the expression's columns: Null-typed in some partition?
            let ranges = case.layout.batch_ranges(t.rows);
            let mut cs = vec![];
            e.columns(&mut cs);
            // ... in a partition that is longer than the streaming batch size (KF-null-typed-arithmetic-streaming)
            let bs = case.layout.opts.batch_size;
            let null_typed_streamed = cs.iter().any(|c| match t.cols.get(c) {
                Some((_, cells)) => ranges.iter().any(|(lo, hi)| hi - lo > bs && cells[*lo..*hi].iter().all(|x| x.is_null())),
                None => ranges.iter().any(|(lo, hi)| hi - lo > bs),
            });
            if null_typed_streamed && env.kf_active("KF-null-typed-arithmetic-streaming") && !env.replay {
                env.excluded("KF-null-typed-arithmetic-streaming");
                continue;
            }
        }
        // reference
        let mut facts = Facts { hit_sentinel: false, stepwise_ok: true, near: vec![], saw_null: false };
        let per_row: Vec<Ex> = rows.iter().map(|r| exact(e, r, &mut facts)).collect();
        let any_divzero = per_row.iter().any(|x| *x == Ex::DivZero);
        let any_huge = per_row.iter().any(|x| matches!(x, Ex::Huge) || matches!(x, Ex::Val(v) if !fits(*v)));
        // expectation
        enum Want {
            Rows(Vec<Vec<Cell>>),
            MustFail,
            Either(Vec<Vec<Cell>>),
        }
        let want = if is_row {
            let rows_out: Vec<Vec<Cell>> = per_row
                .iter()
                .enumerate()
                // i64::MAX is the engine's reserved NULL marker (outside the value domain): it reads as NULL
                .map(|(i, x)| vec![Cell::Int(i as i64), match x { Ex::Val(v) if fits(*v) && *v != i64::MAX as i128 => Cell::Int(*v as i64), _ => Cell::Null }])
                .collect();
            if any_divzero || any_huge {
                Want::MustFail
            } else if facts.stepwise_ok {
                Want::Rows(rows_out)
            } else {
                Want::Either(rows_out)
            }
        } else {
            // group rows
            let mut groups: BTreeMap<Cell, (i128, u128, bool, bool)> = BTreeMap::new(); // sum, sum_abs, any value, huge
            for (r, x) in rows.iter().zip(per_row.iter()) {
                let key = if grouped { match &gq.q.select[0].expr { Expr::Col(c) => r.get(c).cloned().unwrap_or(Cell::Null), _ => Cell::Null } } else { Cell::Null };
                let g = groups.entry(key).or_insert((0, 0, false, false));
                match x {
                    Ex::Val(v) => {
                        g.0 = g.0.saturating_add(*v);
                        g.1 = g.1.saturating_add(v.unsigned_abs());
                        g.2 = true;
                    }
                    Ex::Huge | Ex::DivZero => g.3 = true,
                    Ex::Null => {}
                }
            }
            // KF-sum-partial-sentinel: a partial sum (a contiguous run of a group's values, in row order: streamed
            // batches, partitions and their pairwise merges all cover contiguous runs) that equals i64::MAX is read
            // as NULL by the engine and dropped, after which neither the value nor an overflow can be predicted.
            {
                let mut per_group: BTreeMap<Cell, Vec<i128>> = BTreeMap::new();
                for (r, x) in rows.iter().zip(per_row.iter()) {
                    if let Ex::Val(v) = x {
                        let key = if grouped { match &gq.q.select[0].expr { Expr::Col(c) => r.get(c).cloned().unwrap_or(Cell::Null), _ => Cell::Null } } else { Cell::Null };
                        per_group.entry(key).or_default().push(*v);
                    }
                }
                'outer: for vals in per_group.values() {
                    for i in 0..vals.len() {
                        let mut acc: i128 = 0;
                        for v in &vals[i..] {
                            acc = match acc.checked_add(*v) {
                                Some(a) => a,
                                None => break,
                            };
                            if acc == i64::MAX as i128 && !env.replay {
                                // (a saved reproducer of the finding is judged: it must keep failing in the listed way)
                                facts.hit_sentinel = true;
                                break 'outer;
                            }
                        }
                    }
                }
            }
            let must_fail = any_divzero || any_huge || groups.values().any(|g| g.3 || !fits(g.0));
            let may_fail = !facts.stepwise_ok || groups.values().any(|g| g.1 > i64::MAX as u128);
            let rows_out: Vec<Vec<Cell>> = groups
                .iter()
                .map(|(k, g)| {
                    let s = if g.2 && g.0 != i64::MAX as i128 { Cell::Int(g.0.clamp(i64::MIN as i128, i64::MAX as i128) as i64) } else { Cell::Null };
                    if grouped { vec![k.clone(), s] } else { vec![s] }
                })
                .collect();
            if must_fail {
                Want::MustFail
            } else if may_fail {
                Want::Either(rows_out)
            } else {
                Want::Rows(rows_out)
            }
        };
        env.class(match &want {
            Want::Rows(_) => "outcome:exact",
            Want::MustFail => if any_divzero { "outcome:div_by_zero" } else { "outcome:overflow" },
            Want::Either(_) => "outcome:either",
        });
        if facts.saw_null {
            env.class("outcome:null_operand");
        }
        env.classes(facts.near.iter().map(|s| s.to_string()));
        let res = dbh.query(&sql).map_err(|f| Failure::from_fault(&f, &ctx))?;
        if facts.hit_sentinel {
            // some value equals 2^63-1, which the property excludes from the value domain: not judged
            env.class("outcome:sentinel_reached");
            continue;
        }
        let cmp_rows = |got: &[Vec<Cell>], want: &[Vec<Cell>]| -> bool {
            if is_row {
                got == want
            } else {
                let mut a = got.to_vec();
                let mut b = want.to_vec();
                a.sort();
                b.sort();
                // an ungrouped SUM over no value: `no row`, NULL or 0 row accepted
                a == b || (!grouped && b.iter().all(|r| r[0].is_null()) && (a.is_empty() || a.iter().all(|r| matches!(r[0], Cell::Null | Cell::Int(0)))))
            }
        };
        let want_either = matches!(want, Want::Either(_));
        match (res, want) {
            (Ok(out), Want::Rows(w)) | (Ok(out), Want::Either(w)) => {
                let either = want_either;
                let got = out.rows_any();
                // a result equal to i64::MAX is the reserved NULL marker: NULL and the value are both accepted
                let norm = |rows: &[Vec<Cell>]| -> Vec<Vec<Cell>> { rows.iter().map(|r| r.iter().map(|c| if *c == Cell::Int(i64::MAX) { Cell::Null } else { c.clone() }).collect()).collect() };
                if !cmp_rows(&norm(&got), &w) {
                    if either && !is_row {
                        // a partial sum may pass through i64::MAX, which the engine reads as NULL (known finding)
                        let f = Failure::mismatch(format!("{}: SUM differs from the exact value {:?}: got {:?}", ctx, w, got)).tag("sum_partial_may_hit_sentinel");
                        if env.kf_absorb("C06", &f).is_some() {
                            continue;
                        }
                        if env.replay {
                            return Err(f);
                        }
                    }
                    let diff = got.iter().zip(w.iter()).find(|(a, b)| a != b).map(|(a, b)| format!("first difference: got {:?}, exact {:?}", a.iter().map(|c| c.short()).collect::<Vec<_>>(), b.iter().map(|c| c.short()).collect::<Vec<_>>())).unwrap_or_else(|| format!("{} rows vs {} rows", got.len(), w.len()));
                    return Err(Failure::mismatch(format!("{}: result differs from exact arithmetic; {}", ctx, diff)).tag("wrong_value").observed(json!({"sql": sql})));
                }
            }
            (Ok(out), Want::MustFail) => {
                return Err(Failure::mismatch(format!(
                    "{}: the exact result of some row/group leaves i64 (or divides by zero) but the query succeeded with {:?}",
                    ctx,
                    out.rows_any().iter().take(5).map(|r| r.iter().map(|c| c.short()).collect::<Vec<_>>()).collect::<Vec<_>>()
                ))
                .tag("silent_overflow")
                .observed(json!({"sql": sql})));
            }
            (Err(QErr::Overflow), Want::MustFail) | (Err(QErr::Overflow), Want::Either(_)) => {}
            (Err(e), _) => {
                std::thread::sleep(std::time::Duration::from_millis(30));
                if let Some(p) = db::db_panics().first() {
                    return Err(Failure::db_panic(p, &format!("{} failed: {}", ctx, e.short())));
                }
                let mut f = Failure::mismatch(format!("{} failed: {} although every row's result is exactly representable step by step", ctx, e.short())).tag("query_error");
                if e == QErr::Overflow {
                    f = f.tag("spurious_overflow");
                    if facts.saw_null {
                        f = f.tag("null_operand");
                    }
                }
                if e.is_decline() {
                    f = f.tag("declined");
                    if e.short().contains("decoded: Null") {
                        f = f.tag("null_typed_operand");
                    }
                }
                if env.kf_absorb("C06", &f).is_some() {
                    continue;
                }
                return Err(f);
            }
        }
        if !facts.near.is_empty() || any_huge || any_divzero {
            env.nontrivial(&format!("{}#{:x}", sql, fingerprint));
        }
    }
    if let Some(p) = db::db_panics().first() {
        return Err(Failure::db_panic(p, "after queries"));
    }
    dbh.close().map_err(|f| Failure::from_fault(&f, "close"))?;
    Ok(())
}

fn collect_ops(e: &Expr, out: &mut Vec<&'static str>) {
    if let Expr::Bin(op, a, b) = e {
        out.push(match op {
            BinOp::Add => "op:add",
            BinOp::Sub => "op:sub",
            BinOp::Mul => "op:mul",
            BinOp::Div => "op:div",
            BinOp::Mod => "op:mod",
            _ => "op:other",
        });
        collect_ops(a, out);
        collect_ops(b, out);
    }
}

pub fn shard(ctx: &mut Ctx) {
    let (tables, max_rows, nq) = ctx.tier.pick((6000, 40, 10), (60000, 200, 20));
    let n = ctx.share(tables);
    ctx.drive("arith", case_strategy(max_rows, nq), n, check);
}

pub fn replay(_sub: &str, case: &Value, env: &mut CaseEnv) -> Result<(), Failure> {
    let c: Case = serde_json::from_value(case.clone()).map_err(bad_case)?;
    check(&c, env)
}
