//! C02 — query results do not depend on physical layout.

use std::collections::BTreeMap;

use proptest::collection::vec;
use proptest::prelude::*;
use serde::{Deserialize, Serialize};
use serde_json::{json, Value};

use crate::db::{self, QErr, QRes};
use crate::eval::{self, Query};
use crate::gen::{self, Layout, LogicalTable, Storage};
use crate::model::Cell;
use crate::props::{bad_case, c03, c04, c05, Entry};
use crate::qgen::{self, GenQuery, TableOpts};
use crate::runner::{CaseEnv, Ctx, Failure};

pub fn entry() -> Entry {
    Entry {
        id: "C02",
        shard,
        replay,
        level: "exploration",
        rule: "one generated logical table realised under two independently drawn physical layouts (batch split, flush points, partition_combine_factor {0,1,4,999}, mem_lz4, max_partition_size_bytes {1,64,1000,8M}, batch_size {8,16,64,1024}, threads {1,2,8}, memory / disk / reopened-cold / evicted) and queried with filter, order/limit and aggregate queries; both realisations must give the same outcome (metamorphic relation) and both are anchored to the reference evaluator; non-trivial = the layouts differ in partition structure or storage mode and the query touches >= 2 partitions in one of them; distinct = (SQL, table fingerprint, both layout descriptions)",
        assumptions: &[
            "float sums may differ by the reordering tolerance; rows that tie on all ORDER BY keys may permute",
            "query shapes listed as known findings of C03/C04/C05 under either layout are excluded and counted",
        ],
        quick_budget_s: 900,
        thorough_budget_s: 7200,
        required_classes: &["family:where", "family:order", "family:aggregate", "storage:Memory", "storage:Disk", "storage:DiskReopened", "storage:DiskEvicted", "pcf:0", "pcf:1", "pcf:4", "pcf:999", "bs:8", "bs:16", "bs:64", "bs:1024", "thr:1", "thr:2", "thr:8", "lz4:true", "lz4:false", "mps:1", "mps:64"],
        exhaustive_claim: false,
    }
}

#[derive(Clone, Debug, Serialize, Deserialize)]
pub struct Case {
    pub table: LogicalTable,
    pub layout_a: Layout,
    pub layout_b: Layout,
    /// (family, query)
    pub queries: Vec<(String, GenQuery)>,
}

fn case_strategy(max_rows: usize, nq: usize) -> BoxedStrategy<Case> {
    (qgen::query_table(TableOpts { max_rows, ..TableOpts::default() }), gen::layout(5), gen::layout(5))
        .prop_flat_map(move |(t, la, lb)| {
            let infos = qgen::col_infos(&t);
            let wq = qgen::predicate(infos).prop_map(|(p, labels)| {
                (
                    "where".to_string(),
                    GenQuery {
                        q: Query { select: qgen::select_cols(&["id"]), table: "t".into(), filter: Some(p), order_by: vec![], limit: None, offset: None },
                        labels,
                    },
                )
            });
            let oq = c05::query_strategy(&t, &la).prop_map(|g| ("order".to_string(), g));
            let aq = c04::query_strategy(&t).prop_map(|g| ("aggregate".to_string(), g));
            let qs = vec(prop_oneof![wq, oq, aq], 1..=nq);
            (Just(t), Just(la), Just(lb), qs)
        })
        .prop_map(|(table, layout_a, layout_b, queries)| Case { table, layout_a, layout_b, queries })
        .boxed()
}

fn layout_classes(l: &Layout) -> Vec<String> {
    vec![
        format!("storage:{:?}", l.storage),
        format!("pcf:{}", l.opts.partition_combine_factor),
        format!("bs:{}", l.opts.batch_size),
        format!("thr:{}", l.opts.threads),
        format!("lz4:{}", l.opts.mem_lz4),
        format!("mps:{}", l.opts.max_partition_size_bytes),
        format!("io:{}", l.opts.io_threads),
    ]
}

/// Judges one realisation's answer against the reference. Err(msg) = wrong; Ok(false) = not judged.
fn judge(family: &str, gq: &GenQuery, rows: &[BTreeMap<String, Cell>], res: &QRes, count_null_ok: bool) -> Result<bool, String> {
    let out = match res {
        Ok(o) => o,
        Err(_) => return Ok(false),
    };
    let got = out.rows_any();
    match family {
        "where" => match eval::run(&gq.q, rows) {
            Ok(exp) => {
                if got != exp.rows {
                    return Err(format!("kept ids {:?}, reference {:?}", got.iter().map(|r| r[0].short()).collect::<Vec<_>>(), exp.rows.iter().map(|r| r[0].short()).collect::<Vec<_>>()));
                }
                Ok(true)
            }
            Err(_) => Ok(false),
        },
        "order" => match c05::judge(&gq.q, rows, &got) {
            Ok(_) => Ok(true),
            Err(m) if m.starts_with("reference evaluator") => Ok(false),
            Err(m) => Err(m),
        },
        _ => match eval::run(&gq.q, rows) {
            Ok(exp) => c04::compare(&gq.q, &exp, &got, count_null_ok).map(|_| true),
            Err(_) => Ok(false),
        },
    }
}

pub fn check(case: &Case, env: &mut CaseEnv) -> Result<(), Failure> {
    let t = &case.table;
    env.classes(t.classes.iter().cloned());
    env.classes(layout_classes(&case.layout_a));
    env.classes(layout_classes(&case.layout_b));
    let cols: BTreeMap<String, Vec<Cell>> = t.cols.iter().map(|(k, v)| (k.clone(), v.1.clone())).collect();
    let rows = eval::rows_of(&cols, t.rows);
    let fingerprint = crate::model::hash_str(&serde_json::to_string(&t.cols).unwrap_or_default());
    let (da, db_) = (case.layout_a.describe(t.rows), case.layout_b.describe(t.rows));
    env.sample(|| json!({"rows": t.rows, "layout_a": da, "layout_b": db_, "queries": case.queries.iter().take(3).map(|q| q.1.q.sql()).collect::<Vec<_>>() }));
    // Which queries are judged (not in a known-finding shape under either layout)?
    let mut active: Vec<bool> = vec![];
    for (family, gq) in &case.queries {
        env.class(&format!("family:{}", family));
        let mut shapes: Vec<&str> = vec![];
        for l in [&case.layout_a, &case.layout_b] {
            shapes.extend(c03::kf_shape(gq, t, l));
            match family.as_str() {
                "order" => shapes.extend(c05::kf_shape(gq, t, l)),
                "aggregate" => shapes.extend(c04::kf_shape(gq, t, l)),
                _ => {}
            }
        }
        if eval::null_reaches_connective(&gq.q.filter, &rows) {
            shapes.push("KF-connective-null");
        }
        shapes.sort();
        shapes.dedup();
        let mut excluded = false;
        for id in shapes {
            if (id.starts_with("DIALECT-") || env.kf_active(id)) && !env.replay {
                env.excluded(id);
                excluded = true;
            }
        }
        active.push(!excluded);
    }
    let mut answers: Vec<Vec<Option<QRes>>> = vec![];
    for (li, layout) in [&case.layout_a, &case.layout_b].into_iter().enumerate() {
        let (dbh, _dir) = qgen::realise(t, layout, "t")?;
        let mut ans = vec![];
        // set once a worker-killing known finding was hit: the instance has lost a worker and is not used further
        let mut poisoned = false;
        for ((family, gq), act) in case.queries.iter().zip(active.iter()) {
            if !*act || poisoned {
                ans.push(None);
                continue;
            }
            let sql = gq.q.sql();
            let ctx = format!("layout {} [{}] `{}`", ["A", "B"][li], layout.describe(t.rows), sql);
            let res = match dbh.query(&sql) {
                Ok(r) => r,
                Err(fault) => {
                    let f = Failure::from_fault(&fault, &ctx);
                    if f.kind == "panic" && env.kf_absorb("C02", &f).is_some() {
                        db::clear_panics();
                        ans.push(None);
                        poisoned = true;
                        continue;
                    }
                    return Err(f);
                }
            };
            if let Err(e) = &res {
                if !e.is_decline() && *e != db::QErr::Overflow {
                    std::thread::sleep(std::time::Duration::from_millis(30));
                    if let Some(p) = db::db_panics().first() {
                        let f = Failure::db_panic(p, &format!("{} failed: {}", ctx, e.short()));
                        if env.kf_absorb("C02", &f).is_some() {
                            db::clear_panics();
                            ans.push(None);
                            poisoned = true;
                            continue;
                        }
                        return Err(f);
                    }
                    let mut f = Failure::mismatch(format!("{} failed: {}", ctx, e.short())).tag("query_error");
                    if gq.labels.iter().any(|l| l == "tree:not") || matches!(&gq.q.filter, Some(p) if p.any(|e| matches!(e, crate::eval::Expr::Like(_, _, true)))) {
                        f = f.tag("has_not");
                    }
                    if env.kf_absorb("C02", &f).is_some() {
                        ans.push(None);
                        continue;
                    }
                    return Err(f);
                }
                if e.is_decline() && e.short().contains("decoded: Null") {
                    let f = Failure::mismatch(format!("{} declined: {}", ctx, e.short())).tag("declined").tag("null_typed_operand");
                    if env.kf_absorb("C02", &f).is_some() {
                        ans.push(None);
                        continue;
                    }
                }
            }
            match judge(family, gq, &rows, &res, env.kf_active("KF-count-all-null")) {
                Ok(_) => {}
                Err(m) => {
                    let mut f = Failure::mismatch(format!("{}: {}", ctx, m)).tag("differs_from_reference");
                    if let Ok(o) = &res {
                        if o.rows.is_some() && o.rows_from_columns() != o.rows_any() {
                            f = f.tag("views_differ");
                        }
                    }
                    return Err(f.observed(json!({"sql": sql, "family": family})));
                }
            }
            ans.push(Some(res));
        }
        if let Some(p) = db::db_panics().first() {
            let f = Failure::db_panic(p, &format!("layout {} after queries", ["A", "B"][li]));
            if env.kf_absorb("C02", &f).is_none() {
                return Err(f);
            }
            db::clear_panics();
        }
        if poisoned {
            dbh.abandon();
        } else {
            dbh.close().map_err(|f| Failure::from_fault(&f, "close"))?;
        }
        answers.push(ans);
    }
    // Metamorphic relation: same outcome class under both layouts.
    let parts = |l: &Layout| l.batch_ranges(t.rows).len();
    let differ = parts(&case.layout_a) != parts(&case.layout_b)
        || case.layout_a.storage != case.layout_b.storage
        || case.layout_a.opts.partition_combine_factor != case.layout_b.opts.partition_combine_factor
        || case.layout_a.opts.batch_size != case.layout_b.opts.batch_size;
    for (i, (family, gq)) in case.queries.iter().enumerate() {
        let (a, b) = match (&answers[0][i], &answers[1][i]) {
            (Some(a), Some(b)) => (a, b),
            _ => continue,
        };
        let sql = gq.q.sql();
        match (a, b) {
            (Ok(_), Ok(_)) => {}
            (Err(x), Err(y)) if std::mem::discriminant(x) == std::mem::discriminant(y) => env.declined(),
            // SUM / AVG whose inputs' absolute values exceed i64 in total: whether a partial sum overflows depends on
            // the order of addition, i.e. on the layout; C06 allows either outcome
            (Err(QErr::Overflow), Ok(_)) | (Ok(_), Err(QErr::Overflow)) if c04::sum_may_overflow(&gq.q, &rows) => env.class("outcome:partial_sum_may_overflow"),
            _ => {
                return Err(Failure::mismatch(format!(
                    "`{}`: outcome depends on the layout: A [{}] -> {}, B [{}] -> {}",
                    sql,
                    da,
                    match a { Ok(o) => format!("{} rows", o.rows_any().len()), Err(e) => e.short() },
                    db_,
                    match b { Ok(o) => format!("{} rows", o.rows_any().len()), Err(e) => e.short() }
                ))
                .tag("outcome_class_differs"));
            }
        }
        if differ && (parts(&case.layout_a) >= 2 || parts(&case.layout_b) >= 2) && a.is_ok() {
            env.nontrivial(&format!("{}#{:x}#{}#{}", sql, fingerprint, da, db_));
        }
        let _ = family;
    }
    let _ = Storage::Memory;
    Ok(())
}

pub fn shard(ctx: &mut Ctx) {
    let (tables, max_rows, nq) = ctx.tier.pick((2000, 50, 8), (30000, 300, 16));
    let n = ctx.share(tables);
    ctx.drive("layouts", case_strategy(max_rows, nq), n, check);
}

pub fn replay(_sub: &str, case: &Value, env: &mut CaseEnv) -> Result<(), Failure> {
    let c: Case = serde_json::from_value(case.clone()).map_err(bad_case)?;
    check(&c, env)
}
