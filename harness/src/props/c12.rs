//! C12 — every query string gets a well-formed answer or an error value.

use std::collections::BTreeMap;

use proptest::collection::vec;
use proptest::prelude::*;
use serde::{Deserialize, Serialize};
use serde_json::{json, Value};
use sqlparser::ast::{Expr as SqlExpr, LimitClause, SelectItem as SqlSelectItem, SetExpr, Statement, Value as SqlValue};
use sqlparser::dialect::GenericDialect;
use sqlparser::parser::Parser;

use crate::db::{self, Db, DbOpts, Fault, QErr};
use crate::model::{Batch, Cell, ColRep, Request};
use crate::props::{bad_case, Entry};
use crate::runner::{pick_idx, CaseEnv, Ctx, Failure};

pub fn entry() -> Entry {
    Entry {
        id: "C12",
        shard,
        replay,
        level: "exploration",
        rule: "generated query strings against a small fixed database (nullable, absent and late columns, 2 flushed partitions + buffer): (o) well-typed statements over the fixture (plain, repeated, aliased, constant, absent and late select items; aggregates; WHERE; ORDER BY on selected and unselected columns; LIMIT / OFFSET windows inside, at and beyond the end) so that most succeed and the result shape is judged; (i) grammar-generated statements of the supported subset with random nesting, quoting styles, aliases and numeric literal forms (negative, fractional, exponent, beyond u64); (ii) every unsupported construct the SQL parser accepts (JOIN, GROUP BY, HAVING, DISTINCT, subqueries, IN, BETWEEN, CASE, CAST, UNION, WITH, window functions, LIMIT ALL, FETCH, several statements, non-SELECT, empty); (iii) token- and byte-level mutations of valid statements. Oracle: the call returns (no caller panic, no hang, no Canceled); an Ok result has one column per select item in order under the written name/alias, equally long columns, row view = column view, at most LIMIT rows; unknown table -> Err. Non-trivial = the text parses with sqlparser (reaches LocustDB's own conversion code); distinct = statement text",
        assumptions: &["`written name` of an unaliased item = sqlparser's rendering of the expression with identifier quotes stripped (what the engine documents)", "an engine-internal panic that is delivered to the caller as an error value is an error value"],
        quick_budget_s: 900,
        thorough_budget_s: 7200,
        required_classes: &["kind:well_typed", "wt:select", "wt:aggregate", "wt:repeated_item", "wt:absent_column_selected", "wt:window_inside", "wt:table_u_single_partition", "wt:table_t_three_partitions", "wt:offset_beyond", "wt:limit_0", "wt:order_by_2", "kind:grammar", "kind:unsupported", "kind:mutated_tokens", "kind:mutated_bytes", "outcome:ok", "outcome:err", "parses:yes", "parses:no", "literal:negative", "literal:fractional", "literal:exponent", "literal:beyond_u64", "quoting:double", "quoting:backtick", "alias", "star"],
        exhaustive_claim: false,
    }
}

#[derive(Clone, Debug, Serialize, Deserialize)]
pub struct Case {
    /// (statement, kind label)
    pub statements: Vec<(String, String)>,
}

const COLS: [&str; 6] = ["id", "n", "s", "f", "late", "nosuch"];

fn ident() -> BoxedStrategy<(String, Vec<String>)> {
    (proptest::sample::select(COLS.to_vec()), 0u8..6)
        .prop_map(|(c, q)| match q {
            0 => (format!("\"{}\"", c), vec!["quoting:double".to_string()]),
            1 => (format!("`{}`", c), vec!["quoting:backtick".to_string()]),
            _ => (c.to_string(), vec![]),
        })
        .boxed()
}

fn literal() -> BoxedStrategy<(String, Vec<String>)> {
    prop_oneof![
        3 => (0i64..100).prop_map(|i| (i.to_string(), vec![])),
        1 => (1i64..100).prop_map(|i| (format!("-{}", i), vec!["literal:negative".to_string()])),
        1 => (0i64..100, 1u8..100).prop_map(|(i, f)| (format!("{}.{}", i, f), vec!["literal:fractional".to_string()])),
        1 => (1i64..9, 0u8..20).prop_map(|(i, e)| (format!("{}e{}", i, e), vec!["literal:exponent".to_string()])),
        1 => Just(("99999999999999999999999".to_string(), vec!["literal:beyond_u64".to_string()])),
        1 => Just(("18446744073709551616".to_string(), vec!["literal:beyond_u64".to_string()])),
        1 => Just(("9223372036854775807".to_string(), vec!["literal:i64_max".to_string()])),
        2 => "[a-c%_]{0,4}".prop_map(|s| (format!("'{}'", s), vec!["literal:string".to_string()])),
        1 => Just(("'it''s'".to_string(), vec!["literal:string".to_string()])),
        1 => Just(("NULL".to_string(), vec!["literal:null".to_string()])),
    ]
    .boxed()
}

fn scalar_expr() -> BoxedStrategy<(String, Vec<String>)> {
    let leaf = prop_oneof![3 => ident(), 2 => literal()];
    leaf.prop_recursive(3, 10, 2, |inner| {
        prop_oneof![
            3 => (inner.clone(), proptest::sample::select(vec!["+", "-", "*", "/", "%", "=", "<>", "<", "<=", ">", ">=", "AND", "OR", "and", "LIKE", "NOT LIKE"]), inner.clone())
                .prop_map(|((a, mut la), op, (b, lb))| { la.extend(lb); (format!("{} {} {}", a, op, b), la) }),
            1 => inner.clone().prop_map(|(a, la)| (format!("({})", a), la)),
            1 => inner.clone().prop_map(|(a, la)| (format!("NOT {}", a), la)),
            1 => inner.clone().prop_map(|(a, la)| (format!("-{}", a), la)),
            1 => inner.clone().prop_map(|(a, la)| (format!("{} IS NULL", a), la)),
            1 => inner.clone().prop_map(|(a, la)| (format!("{} IS NOT NULL", a), la)),
            1 => (proptest::sample::select(vec!["length", "floor", "to_year", "LENGTH", "regex"]), inner.clone(), inner.clone())
                .prop_map(|(f, (a, mut la), (b, lb))| if f == "regex" { la.extend(lb); (format!("regex({}, {})", a, b), la) } else { (format!("{}({})", f, a), la) }),
        ]
    })
    .boxed()
}

fn select_item() -> BoxedStrategy<(String, Vec<String>)> {
    let agg = (proptest::sample::select(vec!["count", "sum", "min", "max", "avg", "COUNT", "Sum"]), scalar_expr()).prop_map(|(f, (a, la))| (format!("{}({})", f, a), la));
    (prop_oneof![4 => scalar_expr(), 2 => agg, 1 => Just(("*".to_string(), vec!["star".to_string()]))], proptest::option::weighted(0.3, prop_oneof![Just("x".to_string()), Just("\"my col\"".to_string()), Just("id".to_string()), Just("`b`".to_string())]), any::<bool>())
        .prop_map(|((e, mut l), alias, as_kw)| match alias {
            Some(a) if e != "*" => {
                l.push("alias".to_string());
                (format!("{} {}{}", e, if as_kw { "AS " } else { "" }, a), l)
            }
            _ => (e, l),
        })
        .boxed()
}

fn grammar_statement() -> BoxedStrategy<(String, Vec<String>)> {
    (
        vec(select_item(), 1..=4),
        proptest::sample::select(vec!["t", "\"t\"", "`t`", "T", "u", "no_such_table", "_meta_tables", "\"_meta_columns_t\""]),
        proptest::option::weighted(0.5, scalar_expr()),
        vec((scalar_expr(), proptest::sample::select(vec!["", " ASC", " DESC", " asc"])), 0..=2),
        proptest::option::weighted(0.4, prop_oneof![(0u64..20).prop_map(|x| x.to_string()), literal().prop_map(|l| l.0)]),
        proptest::option::weighted(0.3, prop_oneof![(0u64..20).prop_map(|x| x.to_string()), literal().prop_map(|l| l.0)]),
        proptest::sample::select(vec!["SELECT", "select", "Select"]),
        proptest::sample::select(vec!["", ";", " ;", "  "]),
    )
        .prop_map(|(items, table, filter, order, limit, offset, kw, tail)| {
            let mut labels = vec![];
            let mut s = format!("{} ", kw);
            s.push_str(&items.iter().map(|i| i.0.clone()).collect::<Vec<_>>().join(", "));
            for i in &items {
                labels.extend(i.1.clone());
            }
            s.push_str(&format!(" FROM {}", table));
            if let Some((f, l)) = filter {
                labels.extend(l);
                s.push_str(&format!(" WHERE {}", f));
            }
            if !order.is_empty() {
                s.push_str(" ORDER BY ");
                s.push_str(&order.iter().map(|((e, _), d)| format!("{}{}", e, d)).collect::<Vec<_>>().join(", "));
            }
            if let Some(l) = limit {
                s.push_str(&format!(" LIMIT {}", l));
            }
            if let Some(o) = offset {
                s.push_str(&format!(" OFFSET {}", o));
            }
            s.push_str(tail);
            (s, labels)
        })
        .boxed()
}

pub fn unsupported_statements() -> Vec<&'static str> {
    vec![
        "SELECT t.id FROM t JOIN t AS u ON t.id = u.id",
        "SELECT id FROM t, t AS u",
        "SELECT id FROM t LEFT JOIN u USING (id)",
        "SELECT s, count(1) FROM t GROUP BY s",
        "SELECT s, count(1) FROM t GROUP BY s HAVING count(1) > 1",
        "SELECT DISTINCT s FROM t",
        "SELECT id FROM (SELECT id FROM t) AS x",
        "SELECT (SELECT max(id) FROM t) FROM t",
        "SELECT id FROM t WHERE id IN (1, 2, 3)",
        "SELECT id FROM t WHERE id IN (SELECT id FROM t)",
        "SELECT id FROM t WHERE id BETWEEN 1 AND 5",
        "SELECT CASE WHEN id > 3 THEN 'a' ELSE 'b' END FROM t",
        "SELECT CAST(id AS VARCHAR) FROM t",
        "SELECT id FROM t UNION SELECT id FROM t",
        "SELECT id FROM t UNION ALL SELECT n FROM t",
        "WITH x AS (SELECT id FROM t) SELECT id FROM x",
        "SELECT id, row_number() OVER (ORDER BY id) FROM t",
        "SELECT sum(id) OVER (PARTITION BY s) FROM t",
        "SELECT id FROM t LIMIT ALL",
        "SELECT id FROM t FETCH FIRST 2 ROWS ONLY",
        "SELECT id FROM t OFFSET 2 ROWS",
        "SELECT id FROM t; SELECT s FROM t",
        "INSERT INTO t (id) VALUES (1)",
        "UPDATE t SET id = 1",
        "DELETE FROM t",
        "CREATE TABLE x (a INT)",
        "DROP TABLE t",
        "EXPLAIN SELECT id FROM t",
        "",
        " ",
        ";",
        "SELECT",
        "SELECT id",
        "SELECT FROM t",
        "SELECT id FROM t WHERE id = ANY (SELECT id FROM t)",
        "SELECT id FROM t WHERE EXISTS (SELECT 1 FROM t)",
        "SELECT t.* FROM t",
        "SELECT id FROM t ORDER BY 1",
        "SELECT id FROM t LIMIT 1, 2",
        "SELECT id FROM t LIMIT -1",
        "SELECT id FROM t LIMIT id",
        "SELECT id FROM t OFFSET -1",
        "SELECT id FROM t LIMIT 2 OFFSET 'x'",
        "SELECT count(*) FROM t",
        "SELECT count(DISTINCT s) FROM t",
        "SELECT count(id, s) FROM t",
        "SELECT sum() FROM t",
        "SELECT to_year() FROM t",
        "SELECT regex(s) FROM t",
        "SELECT s LIKE 'a' ESCAPE '!' FROM t",
        "SELECT id FROM t WHERE s ILIKE 'a%'",
        "SELECT id FROM t WHERE s SIMILAR TO 'a'",
        "SELECT id::text FROM t",
        "SELECT id FROM schema.t",
        "SELECT id FROM t AS x WHERE x.id = 1",
        "SELECT \"id\" AS \"\" FROM t",
        "SELECT id AS \"a\"\"b\" FROM t",
        "SELECT id FROM t WHERE s = 'unterminated",
        "SELECT id FROM t -- comment",
        "SELECT /* c */ id FROM t",
        "SELECT id FROM t WHERE id = 1 = 1",
        "SELECT 1",
        "SELECT 1 FROM t",
        "SELECT 'x', 2.5, -3 FROM t",
        "SELECT NULL FROM t",
        "SELECT id FROM t WHERE NULL",
        "SELECT id FROM t WHERE 1",
        "SELECT id FROM t WHERE 'a'",
        "SELECT id, id, id FROM t",
        "SELECT * , id FROM t",
        "SELECT *, * FROM t",
    ]
}

fn mutate_tokens(s: &str, ops: &[(u8, u16, u16)]) -> String {
    let mut toks: Vec<String> = s.split_whitespace().map(|t| t.to_string()).collect();
    for (op, a, b) in ops {
        if toks.is_empty() {
            break;
        }
        let i = pick_idx(*a, toks.len());
        let j = pick_idx(*b, toks.len());
        match op % 5 {
            0 => {
                toks.remove(i);
            }
            1 => {
                let t = toks[i].clone();
                toks.insert(i, t);
            }
            2 => toks.swap(i, j),
            3 => {
                let extra = ["(", ")", ",", "FROM", "SELECT", "WHERE", "AND", "'", "\"", "*", "LIMIT", "NULL", "--", "AS"];
                toks.insert(i, extra[pick_idx(*b, extra.len())].to_string());
            }
            _ => {
                let t = toks[j].clone();
                toks[i] = t;
            }
        }
    }
    toks.join(" ")
}

fn mutate_bytes(s: &str, ops: &[(u8, u16, u8)]) -> String {
    let mut b: Vec<u8> = s.as_bytes().to_vec();
    for (op, at, val) in ops {
        if b.is_empty() {
            b.push(*val);
            continue;
        }
        let i = pick_idx(*at, b.len());
        match op % 4 {
            0 => {
                b.remove(i);
            }
            1 => b.insert(i, *val),
            2 => b[i] = *val,
            _ => b.truncate(i),
        }
    }
    String::from_utf8_lossy(&b).to_string()
}

/// Statements whose expressions are well typed for the fixture table, so that most of them succeed and the
/// result-shape part of the property (names, equal lengths, row view = column view, LIMIT) is exercised with every
/// clause combination: repeated select items, aliases equal to column names, constants, absent and late columns,
/// aggregates next to plain items, ORDER BY on unselected columns, LIMIT / OFFSET windows inside, at and beyond the end.
fn well_typed_statement() -> BoxedStrategy<(String, Vec<String>)> {
    let col = || proptest::sample::select(vec!["id", "n", "s", "f", "late", "nosuch", "\"id\"", "`s`", "\"nosuch\""]);
    let plain = prop_oneof![
        6 => col().prop_map(|c| c.to_string()),
        1 => proptest::sample::select(vec!["id + 1", "id * 2", "n - 1", "f * 2", "id % 3", "id + n", "late + id", "nosuch + 1", "length(s)", "1", "'x'", "2.5", "id < 5", "n IS NULL"]).prop_map(|c| c.to_string()),
    ];
    let agg = proptest::sample::select(vec!["count(1)", "count(n)", "sum(id)", "min(n)", "max(f)", "avg(id)", "max(s)", "sum(late)", "count(nosuch)", "sum(id) / count(1)"]).prop_map(|c| c.to_string());
    let alias = || proptest::option::weighted(0.3, proptest::sample::select(vec!["x", "id", "n", "\"my col\"", "nosuch"]));
    let pred = proptest::sample::select(vec!["id < 7", "id >= 3", "id <> 4", "n IS NULL", "n IS NOT NULL", "n > 0", "s = 'a'", "s LIKE 'a%'", "late = 8", "nosuch IS NULL", "nosuch IS NOT NULL", "id < 9 AND n > 0", "id < 2 OR id > 9", "f > 1.5", "id < 0"]);
    (
        vec((prop_oneof![4 => plain.prop_map(|p| (p, false)), 1 => agg.prop_map(|a| (a, true))], alias()), 1..=4),
        proptest::option::weighted(0.45, pred),
        vec((col(), proptest::sample::select(vec!["", " ASC", " DESC"])), 0..=2),
        proptest::option::weighted(0.65, 0u64..15),
        proptest::option::weighted(0.5, 0u64..15),
        any::<bool>(),
    )
        .prop_map(|(items, filter, order, limit, offset, single_partition)| {
            let mut labels = vec![];
            let has_agg = items.iter().any(|i| (i.0).1);
            labels.push(if has_agg { "wt:aggregate".to_string() } else { "wt:select".to_string() });
            let texts: Vec<String> = items.iter().map(|((e, _), a)| match a { Some(a) => format!("{} AS {}", e, a), None => e.clone() }).collect();
            if (0..texts.len()).any(|i| (0..i).any(|j| items[i].0 .0 == items[j].0 .0)) {
                labels.push("wt:repeated_item".to_string());
            }
            if items.iter().any(|((e, _), _)| e.contains("nosuch")) {
                labels.push("wt:absent_column_selected".to_string());
            }
            labels.push(if single_partition { "wt:table_u_single_partition".to_string() } else { "wt:table_t_three_partitions".to_string() });
            let mut s = format!("SELECT {} FROM {}", texts.join(", "), if single_partition { "u" } else { "t" });
            if let Some(f) = filter {
                labels.push("wt:where".to_string());
                s.push_str(&format!(" WHERE {}", f));
            }
            if !order.is_empty() && !has_agg {
                labels.push(format!("wt:order_by_{}", order.len()));
                s.push_str(" ORDER BY ");
                s.push_str(&order.iter().map(|(c, d)| format!("{}{}", c, d)).collect::<Vec<_>>().join(", "));
            }
            if let Some(l) = limit {
                labels.push(if l == 0 { "wt:limit_0".to_string() } else { "wt:limit".to_string() });
                s.push_str(&format!(" LIMIT {}", l));
            }
            if let Some(o) = offset {
                labels.push(match (o, limit) { (0, _) => "wt:offset_0", (o, _) if o >= 12 => "wt:offset_beyond", (o, Some(l)) if o + l < 12 => "wt:window_inside", _ => "wt:offset" }.to_string());
                s.push_str(&format!(" OFFSET {}", o));
            }
            (s, labels)
        })
        .boxed()
}

fn statement() -> BoxedStrategy<(String, String)> {
    prop_oneof![
        4 => well_typed_statement().prop_map(|(s, l)| (s, format!("kind:well_typed|{}", l.join("|")))),
        5 => grammar_statement().prop_map(|(s, l)| (s, format!("kind:grammar|{}", l.join("|")))),
        2 => proptest::sample::select(unsupported_statements()).prop_map(|s| (s.to_string(), "kind:unsupported".to_string())),
        2 => (grammar_statement(), vec((any::<u8>(), any::<u16>(), any::<u16>()), 1..4)).prop_map(|((s, _), ops)| (mutate_tokens(&s, &ops), "kind:mutated_tokens".to_string())),
        2 => (grammar_statement(), vec((any::<u8>(), any::<u16>(), any::<u8>()), 1..4)).prop_map(|((s, _), ops)| (mutate_bytes(&s, &ops), "kind:mutated_bytes".to_string())),
        1 => (proptest::sample::select(unsupported_statements()), vec((any::<u8>(), any::<u16>(), any::<u8>()), 1..3)).prop_map(|(s, ops)| (mutate_bytes(s, &ops), "kind:mutated_bytes".to_string())),
    ]
    .boxed()
}

fn case_strategy(n: usize) -> BoxedStrategy<Case> {
    vec(statement(), 1..=n).prop_map(|statements| Case { statements }).boxed()
}

pub fn fixture() -> Vec<Batch> {
    let mut out = vec![];
    for b in 0..3i64 {
        let rows = 4usize;
        let mut cols = BTreeMap::new();
        cols.insert("id".to_string(), ColRep::I64((0..rows as i64).map(|i| b * 4 + i).collect()));
        cols.insert("n".to_string(), ColRep::Mixed((0..rows as i64).map(|i| if (b * 4 + i) % 3 == 0 { Cell::Null } else { Cell::Int((b * 4 + i) % 4) }).collect()));
        cols.insert("f".to_string(), ColRep::Mixed((0..rows as i64).map(|i| if (b * 4 + i) % 5 == 0 { Cell::Null } else { Cell::float((b * 4 + i) as f64 * 0.5) }).collect()));
        cols.insert("s".to_string(), ColRep::Str((0..rows as i64).map(|i| ["a", "ab", "c%"][((b * 4 + i) % 3) as usize].to_string()).collect()));
        if b >= 1 {
            cols.insert("late".to_string(), ColRep::I64(vec![7 + b; rows]));
        }
        out.push(Batch { rows, cols });
    }
    out
}

fn strip_quotes(ident: &str) -> String {
    if (ident.starts_with('`') || ident.starts_with('"')) && ident.len() >= 2 {
        ident[1..ident.len() - 1].to_string()
    } else {
        ident.to_string()
    }
}

struct Shape {
    /// expected output names; None = `*` (expands to the sorted column list)
    items: Vec<Option<String>>,
    limit: Option<u64>,
    table: Option<String>,
}

/// What the text says, according to the SQL parser: select items, limit, table.
fn shape_of(sql: &str) -> Option<Shape> {
    let ast = Parser::parse_sql(&GenericDialect {}, sql).ok()?;
    if ast.len() != 1 {
        return None;
    }
    let q = match &ast[0] {
        Statement::Query(q) => q,
        _ => return None,
    };
    let sel = match &*q.body {
        SetExpr::Select(s) => s,
        _ => return None,
    };
    let mut items = vec![];
    for it in &sel.projection {
        match it {
            SqlSelectItem::UnnamedExpr(e) => items.push(Some(strip_quotes(&format!("{}", e)))),
            SqlSelectItem::ExprWithAlias { alias, .. } => items.push(Some(strip_quotes(&alias.to_string()))),
            SqlSelectItem::Wildcard(_) => items.push(None),
            _ => return None,
        }
    }
    let limit = match &q.limit_clause {
        Some(LimitClause::LimitOffset { limit: Some(SqlExpr::Value(v)), .. }) => match &v.value {
            SqlValue::Number(n, _) => n.parse::<u64>().ok(),
            _ => None,
        },
        _ => None,
    };
    let table = sel.from.first().and_then(|t| match &t.relation {
        sqlparser::ast::TableFactor::Table { name, .. } => Some(strip_quotes(&format!("{}", name))),
        _ => None,
    });
    Some(Shape { items, limit, table })
}

pub fn check(case: &Case, env: &mut CaseEnv) -> Result<(), Failure> {
    let opts = DbOpts { threads: 2, ..DbOpts::default() };
    let dbh = Db::open(&opts, None).map_err(|f| Failure::from_fault(&f, "open"))?;
    let batches = fixture();
    for (i, b) in batches.iter().enumerate() {
        dbh.ingest(Request::single("t", b.clone()).to_event_buffer()).map_err(|f| Failure::from_fault(&f, "fixture ingest"))?;
        if i < 2 {
            dbh.flush().map_err(|f| Failure::from_fault(&f, "fixture flush"))?;
        }
    }
    // the same rows once more as table u, never flushed: a single 12-row buffer partition, so that LIMIT/OFFSET
    // windows are cut out of columns that are longer than the window (in t every partition has 4 rows)
    for b in &batches {
        dbh.ingest(Request::single("u", b.clone()).to_event_buffer()).map_err(|f| Failure::from_fault(&f, "fixture ingest u"))?;
    }
    let known_tables = ["t", "u", "_meta_tables", "_meta_columns_t", "_meta_columns_u", "_meta_columns__meta_tables"];
    env.sample(|| json!({"statements": case.statements.iter().take(5).map(|s| &s.0).collect::<Vec<_>>() }));
    for (sql, kind) in &case.statements {
        for l in kind.split('|') {
            if !l.is_empty() {
                env.class(l);
            }
        }
        let shape = shape_of(sql);
        env.class(if shape.is_some() { "parses:yes" } else { "parses:no" });
        db::clear_panics();
        let res = match dbh.query_full(sql, true) {
            Ok(r) => r,
            Err(fault) => {
                let f = Failure::from_fault(&fault, &format!("`{}`", sql)).tag(match fault { Fault::CallerPanic(_) => "caller_panic", _ => "no_answer" });
                return Err(f.observed(json!({"sql": sql})));
            }
        };
        match res {
            Err(QErr::Canceled) => {
                return Err(Failure::mismatch(format!("`{}`: the answer was lost (Canceled); database thread panics: {:?}", sql, db::db_panics().iter().map(|p| p.short()).collect::<Vec<_>>())).tag("lost_answer"));
            }
            Err(_) => env.class("outcome:err"),
            Ok(out) => {
                env.class("outcome:ok");
                let ctx = format!("`{}`", sql);
                // structural well-formedness, independent of the SQL text
                if out.columns.len() != out.colnames.len() {
                    let f = Failure::mismatch(format!("{}: {} column names but {} columns", ctx, out.colnames.len(), out.columns.len())).tag("column_count");
                    if env.kf_absorb("C12", &f).is_none() {
                        return Err(f);
                    }
                    continue;
                }
                for (i, (n, _, _)) in out.columns.iter().enumerate() {
                    if *n != out.colnames[i] {
                        return Err(Failure::mismatch(format!("{}: column {} is named {:?} in the column view and {:?} in colnames", ctx, i, n, out.colnames[i])).tag("column_names"));
                    }
                }
                let len0 = out.columns.first().map(|c| c.2.len()).unwrap_or(0);
                if out.columns.iter().any(|c| c.2.len() != len0) {
                    return Err(Failure::mismatch(format!("{}: columns of different lengths {:?}", ctx, out.columns.iter().map(|c| c.2.len()).collect::<Vec<_>>())).tag("ragged"));
                }
                if let Some(rows) = &out.rows {
                    let cv = out.rows_from_columns();
                    if !out.columns.is_empty() && *rows != cv {
                        let f = Failure::mismatch(format!("{}: row view and column view differ: rows {:?} columns {:?}", ctx, rows.iter().take(4).collect::<Vec<_>>(), cv.iter().take(4).collect::<Vec<_>>())).tag("views_differ");
                        if env.kf_absorb("C12", &f).is_none() {
                            return Err(f);
                        }
                        continue;
                    }
                }
                if let Some(sh) = &shape {
                    // names and count per select item
                    if sh.items.iter().all(|i| i.is_some()) {
                        let want: Vec<String> = sh.items.iter().map(|i| i.clone().unwrap()).collect();
                        if out.colnames != want {
                            return Err(Failure::mismatch(format!("{}: column names {:?}, the statement's select list reads {:?}", ctx, out.colnames, want)).tag("names"));
                        }
                    } else if sh.items.len() == 1 {
                        let mut sorted = out.colnames.clone();
                        sorted.sort();
                        if sorted != out.colnames {
                            return Err(Failure::mismatch(format!("{}: SELECT * columns are not in sorted order: {:?}", ctx, out.colnames)).tag("star_order"));
                        }
                    }
                    if let Some(l) = sh.limit {
                        if len0 as u64 > l {
                            return Err(Failure::mismatch(format!("{}: {} rows returned, LIMIT is {}", ctx, len0, l)).tag("limit"));
                        }
                    }
                    if let Some(t) = &sh.table {
                        if !known_tables.contains(&t.as_str()) {
                            return Err(Failure::mismatch(format!("{}: table {:?} does not exist but the query succeeded", ctx, t)).tag("unknown_table"));
                        }
                    }
                }
            }
        }
        if shape.is_some() {
            env.nontrivial(sql);
        }
    }
    dbh.close().map_err(|f| Failure::from_fault(&f, "close"))?;
    Ok(())
}

pub fn shard(ctx: &mut Ctx) {
    let (n, per) = ctx.tier.pick((4000, 20), (80000, 30));
    let n = ctx.share(n);
    ctx.drive("strings", case_strategy(per), n, check);
}

pub fn replay(_sub: &str, case: &Value, env: &mut CaseEnv) -> Result<(), Failure> {
    let c: Case = serde_json::from_value(case.clone()).map_err(bad_case)?;
    check(&c, env)
}
