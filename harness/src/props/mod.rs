//! One module per property. Each exposes `shard` (generated search) and `replay` (one saved case).

use serde_json::Value;

use crate::runner::{CaseEnv, Ctx, Failure};

pub mod c01;
pub mod c02;
pub mod c03;
pub mod c04;
pub mod c05;
pub mod c06;
pub mod c07;
pub mod c08;
pub mod c09;
pub mod c10;
pub mod c11;
pub mod c12;
pub mod c13;
pub mod c14;
pub mod c15;
pub mod c16;
pub mod c17;
pub mod c18;
pub mod probe;

pub struct Entry {
    pub id: &'static str,
    pub shard: fn(&mut Ctx),
    pub replay: fn(&str, &Value, &mut CaseEnv) -> Result<(), Failure>,
    pub level: &'static str,
    pub rule: &'static str,
    pub assumptions: &'static [&'static str],
    pub quick_budget_s: u64,
    pub thorough_budget_s: u64,
    /// classes named in the property's quantifier; a run that never produced one prints a warning
    pub required_classes: &'static [&'static str],
    pub exhaustive_claim: bool,
}

pub fn all() -> Vec<Entry> {
    vec![c01::entry(), c02::entry(), c03::entry(), c04::entry(), c05::entry(), c06::entry(), c07::entry(), c08::entry(), c09::entry(), c10::entry(), c11::entry(), c12::entry(), c13::entry(), c14::entry(), c15::entry(), c16::entry(), c17::entry(), c18::entry()]
}

pub fn lookup(id: &str) -> Option<Entry> {
    all().into_iter().find(|e| e.id == id)
}

pub fn bad_case(e: impl std::fmt::Display) -> Failure {
    Failure {
        kind: "invalid".into(),
        message: format!("replay case does not deserialize: {}", e),
        panic: None,
        tags: vec![],
        observed: Value::Null,
    }
}
