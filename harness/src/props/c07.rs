//! C07 — flush, compaction and eviction never change table content.

use proptest::prelude::*;
use serde::{Deserialize, Serialize};
use serde_json::{json, Value};

use crate::db::{self, DbOpts};
use crate::gen;
use crate::hist::{self, History, Op, OpWeights, Run, Schema};
use crate::model::Cell;
use crate::props::{bad_case, Entry};
use crate::runner::{CaseEnv, Ctx, Failure};

pub fn entry() -> Entry {
    Entry {
        id: "C07",
        shard,
        replay,
        level: "exploration",
        rule: "generated histories (1-12 steps) over ingest(batch into 1-2 tables) / force_flush / evict_cache / restart on an on-disk database with partition_combine_factor in {0,1,4,999}, sub-partition size in {1,64,1000,8M}, lz4 on/off; after every step every table is read back (SELECT *, explicit column list, count, IS NOT NULL probe) and compared with the model of acknowledged batches; non-trivial = a flush that compacted >= 2 partitions of a table holding a NULL, string or absent column (observed through the compaction sync point); distinct = canonical history text",
        assumptions: &["columns are type-stable (type mixing is C01's subject)", "restart = drop, wait for the old flush thread to exit, reopen"],
        quick_budget_s: 900,
        thorough_budget_s: 7200,
        required_classes: &["op:ingest", "op:flush", "op:evict", "op:restart", "pcf:0", "pcf:1", "pcf:4", "pcf:999", "compaction:merged>=2", "column:absent_in_batch", "column:all_null_batch"],
        exhaustive_claim: false,
    }
}

#[derive(Clone, Debug, Serialize, Deserialize)]
pub struct Case {
    pub history: History,
}

fn opts() -> BoxedStrategy<DbOpts> {
    gen::db_opts()
        .prop_flat_map(|o| {
            (Just(o), prop_oneof![2 => Just(0u64), 2 => Just(1), 2 => Just(4), 1 => Just(999)])
        })
        .prop_map(|(o, pcf)| DbOpts { partition_combine_factor: pcf, threads: o.threads.max(2), ..o })
        .boxed()
}

fn case_strategy(max_ops: usize) -> BoxedStrategy<Case> {
    (opts(), hist::ops(Schema::simple(), OpWeights { ingest: 5, flush: 4, evict: 2, restart: 1 }, 1..max_ops))
        .prop_map(|(opts, ops)| Case { history: History { opts, ops } })
        .boxed()
}

fn probes(run: &Run, stage: &str) -> Result<(), Failure> {
    for (tname, tm) in &run.model.tables {
        let sql = format!("SELECT count(1) FROM {}", hist::quote(tname));
        let r = run.db().query(&sql).map_err(|f| Failure::from_fault(&f, &format!("{}: `{}`", stage, sql)))?;
        match r {
            Ok(out) => {
                let got = out.rows_any();
                if got != vec![vec![Cell::Int(tm.rows as i64)]] {
                    return Err(Failure::mismatch(format!("{}: `{}` = {:?}, the model has {} rows", stage, sql, got, tm.rows)).tag("count"));
                }
            }
            Err(e) => return Err(Failure::mismatch(format!("{}: `{}` failed: {}", stage, sql, e.short())).tag("query_error")),
        }
        // one IS NOT NULL probe on the first column: exercises filters on compacted / reloaded columns
        if let Some((cname, cells)) = tm.cols.iter().next() {
            let sql = format!("SELECT {} FROM {} WHERE {} IS NOT NULL", hist::quote(cname), hist::quote(tname), hist::quote(cname));
            let r = run.db().query(&sql).map_err(|f| Failure::from_fault(&f, &format!("{}: `{}`", stage, sql)))?;
            match r {
                Ok(out) => {
                    let got: Vec<Cell> = out.rows_any().into_iter().map(|r| r.into_iter().next().unwrap_or(Cell::Null)).collect();
                    let want: Vec<Cell> = cells.iter().filter(|c| !c.is_null()).cloned().collect();
                    if got != want {
                        return Err(Failure::mismatch(format!("{}: `{}` returned {} values, the model has {} non-NULL values (first difference at {:?})", stage, sql, got.len(), want.len(), got.iter().zip(want.iter()).position(|(a, b)| a != b))).tag("filter_probe"));
                    }
                }
                Err(e) => return Err(Failure::mismatch(format!("{}: `{}` failed: {}", stage, sql, e.short())).tag("query_error")),
            }
        }
    }
    Ok(())
}

pub fn check(case: &Case, env: &mut CaseEnv) -> Result<(), Failure> {
    let h = &case.history;
    env.class(&format!("pcf:{}", h.opts.partition_combine_factor));
    env.class(&format!("mps:{}", h.opts.max_partition_size_bytes));
    env.sample(|| json!({"history": h.describe()}));
    let dir = db::temp_dir("c07");
    db::sync_log_enable(true);
    let mut run = Run::start(&h.opts, dir.path())?;
    let mut nontrivial = false;
    let mut rich = false;
    for (i, op) in h.ops.iter().enumerate() {
        env.class(&format!("op:{}", op.kind()));
        if let Op::Ingest(req) = op {
            for (t, b) in &req.tables {
                if let Some(tm) = run.model.tables.get(t) {
                    if tm.cols.keys().any(|c| !b.cols.contains_key(c)) {
                        env.class("column:absent_in_batch");
                        rich = true;
                    }
                }
                for rep in b.cols.values() {
                    let cells = rep.cells(b.rows);
                    if cells.iter().all(|c| c.is_null()) {
                        env.class("column:all_null_batch");
                        rich = true;
                    }
                    if cells.iter().any(|c| c.is_null() || matches!(c, Cell::Str(_))) {
                        rich = true;
                    }
                }
            }
        }
        let parts_before = run.db().raw().verif_inner().verif_partitions();
        let log_before = db::sync_log().len();
        run.apply(i, op)?;
        let stage = format!("after step {} ({}) of [{}]", i, op.kind(), h.describe());
        if matches!(op, Op::Flush) {
            let log = db::sync_log();
            let compactions: Vec<&(usize, String, String)> = log[log_before.min(log.len())..].iter().filter(|e| e.1 == "compact.begin" && !e.2.starts_with("_meta")).collect();
            if !compactions.is_empty() {
                env.class("compaction:happened");
                let after = run.db().raw().verif_inner().verif_partitions();
                for c in compactions {
                    let before_n = parts_before.iter().filter(|p| p.0 == c.2).count();
                    let after_n = after.iter().filter(|p| p.0 == c.2).count();
                    // a flush adds one partition and the compaction replaced k of them by one
                    if before_n + 1 > after_n && before_n + 1 - after_n >= 1 && before_n >= 1 {
                        env.class("compaction:merged>=2");
                        if rich {
                            nontrivial = true;
                        }
                    }
                }
            }
        }
        hist::check_content(run.db(), &run.model, &stage)?;
        probes(&run, &stage)?;
        if let Some(p) = db::db_panics().first() {
            return Err(Failure::db_panic(p, &stage));
        }
    }
    db::sync_log_enable(false);
    if nontrivial {
        env.nontrivial(&h.describe());
    }
    run.finish()
}

pub fn shard(ctx: &mut Ctx) {
    let (n, max_ops) = ctx.tier.pick((2400, 12), (40000, 16));
    let n = ctx.share(n);
    ctx.drive("history", case_strategy(max_ops), n, check);
}

pub fn replay(_sub: &str, case: &Value, env: &mut CaseEnv) -> Result<(), Failure> {
    let c: Case = serde_json::from_value(case.clone()).map_err(bad_case)?;
    check(&c, env)
}
