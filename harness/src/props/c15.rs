//! C15 — each column is found in the file it was written to, under any name.

use std::collections::{BTreeMap, BTreeSet};

use locustdb::verif::internals::{verif_is_filesystem_safe, verif_sanitize_table_name};
use proptest::collection::vec;
use proptest::prelude::*;
use serde::{Deserialize, Serialize};
use serde_json::{json, Value};

use crate::db::{self, Db, DbOpts};
use crate::gen::ColType;
use crate::hist::{self, Schema};
use crate::model::{Cell, DbModel, Request};
use crate::props::{bad_case, c13, Entry};
use crate::runner::{pick_idx, CaseEnv, Ctx, Failure};

pub fn entry() -> Entry {
    Entry {
        id: "C15",
        shard,
        replay,
        level: "exploration",
        rule: "(i) database level: 1-3 tables with adversarial names (empty, dots, slashes, `..`, 300 bytes, case pairs, a name equal to another table's file name) and column sets drawn from an adversarial pool (case pairs, non-ASCII, > 64 bytes, prefixes of one another, first/last in sort order), max_partition_size_bytes from 1 (one column per file) to unlimited, 1-3 batches with flushes; after a restart (all partitions cold) every stored column and several absent names (sorting before, between and after stored ones) are read one by one in generated order and must equal the model / read as NULL; every file must lie under <db>/tables/<one directory per table>/ or be meta/wal, and no directory may be shared by two tables. (ii) direct: sanitize_table_name on generated name pairs is injective, yields no path separator, no leading dot, no `..` component and at most 255 bytes. Non-trivial = >= 2 files per partition and a queried column that is not the last of its file; distinct = canonical case text",
        assumptions: &["column names containing a double quote are not generated", "table names are passed through SQL double quotes, so names containing a double quote are not generated"],
        quick_budget_s: 900,
        thorough_budget_s: 7200,
        required_classes: &["table:empty", "table:dots", "table:slash", "table:dotdot", "table:long", "table:case_pair", "table:like_file", "mps:1", "mps:64", "mps:8388608", "query:absent_before", "query:absent_between", "query:absent_after", "files_per_partition:>=2", "sanitize:pairs"],
        exhaustive_claim: false,
    }
}

#[derive(Clone, Debug, Serialize, Deserialize)]
pub struct Case {
    pub tables: Vec<String>,
    pub requests: Vec<Request>,
    pub flush_after: Vec<bool>,
    pub mps: u64,
    pub pcf: u64,
    /// order in which columns are read back (indices into the name list, monotone mapping)
    pub read_order: Vec<u16>,
}

pub fn table_names() -> Vec<(&'static str, &'static str)> {
    vec![
        ("", "table:empty"),
        ("plain", "table:plain"),
        ("a.b.c", "table:dots"),
        (".hidden", "table:dots"),
        ("...", "table:dots"),
        ("a/b", "table:slash"),
        ("/abs", "table:slash"),
        ("..", "table:dotdot"),
        ("../escape", "table:dotdot"),
        ("a/../b", "table:dotdot"),
        ("Tab", "table:case_pair"),
        ("tab", "table:case_pair"),
        ("TAB", "table:case_pair"),
        ("00000_all.part", "table:like_file"),
        ("meta", "table:like_file"),
        ("größe", "table:non_ascii"),
        ("with space", "table:space"),
        ("-dash", "table:dash"),
    ]
}

fn long_table() -> String {
    "L".repeat(300)
}

fn case_strategy() -> BoxedStrategy<Case> {
    let names = table_names();
    (
        vec(prop_oneof![8 => proptest::sample::select(names).prop_map(|n| n.0.to_string()), 1 => Just(long_table())], 1..=3),
        prop_oneof![Just(1u64), Just(64), Just(300), Just(8 * 1024 * 1024)],
        prop_oneof![Just(0u64), Just(999)],
    )
        .prop_flat_map(|(mut tables, mps, pcf)| {
            tables.sort();
            tables.dedup();
            let schema = Schema {
                tables: tables.clone(),
                columns: c13::name_pool().into_iter().map(|(n, t, _)| (n, t)).chain(vec![("zz".to_string(), ColType::Int), ("b".to_string(), ColType::Str)]).collect(),
                mention_pct: 50,
                max_rows: 4,
                nullable: true,
                rich_values: false,
            };
            (Just(tables), vec(hist::request(schema), 1..=3), vec(any::<bool>(), 3), Just(mps), Just(pcf), vec(any::<u16>(), 0..30))
        })
        .prop_map(|(tables, requests, flush_after, mps, pcf, read_order)| Case { tables, requests, flush_after, mps, pcf, read_order })
        .boxed()
}

fn absent_names(stored: &BTreeSet<String>) -> Vec<(String, &'static str)> {
    let mut out = vec![(" ".to_string(), "query:absent_before"), ("~~~~".to_string(), "query:absent_after"), ("\u{10FFFF}".to_string(), "query:absent_after")];
    for s in stored.iter().take(6) {
        out.push((format!("{}0", s), "query:absent_between"));
        let mut p: String = s.chars().take(s.chars().count().saturating_sub(1)).collect();
        if !p.is_empty() && !stored.contains(&p) {
            out.push((std::mem::take(&mut p), "query:absent_between"));
        }
    }
    out.retain(|n| !stored.contains(&n.0) && !n.0.contains('"'));
    out
}

pub fn check_sanitize(names: &[String], env: &mut CaseEnv) -> Result<(), Failure> {
    env.class("sanitize:pairs");
    let mut seen: BTreeMap<String, String> = BTreeMap::new();
    for n in names {
        let s = verif_sanitize_table_name(n);
        if s.contains('/') || s.contains('\\') || s.contains('\0') {
            return Err(Failure::mismatch(format!("sanitize_table_name({:?}) = {:?} contains a path separator", n, s)).tag("sanitize"));
        }
        if s.starts_with('.') || s == ".." || s.split('/').any(|c| c == "..") {
            return Err(Failure::mismatch(format!("sanitize_table_name({:?}) = {:?} starts with a dot", n, s)).tag("sanitize"));
        }
        if s.len() > 255 {
            return Err(Failure::mismatch(format!("sanitize_table_name({:?}) is {} bytes long", n, s.len())).tag("sanitize"));
        }
        if s.is_empty() {
            return Err(Failure::mismatch(format!("sanitize_table_name({:?}) is empty: the table's files land directly in tables/", n)).tag("sanitize").tag("empty_dir"));
        }
        if let Some(other) = seen.get(&s) {
            if other != n {
                return Err(Failure::mismatch(format!("sanitize_table_name maps {:?} and {:?} to the same directory {:?}", other, n, s)).tag("sanitize"));
            }
        }
        seen.insert(s, n.clone());
    }
    Ok(())
}

pub fn check(case: &Case, env: &mut CaseEnv) -> Result<(), Failure> {
    for t in &case.tables {
        let label = table_names().iter().find(|n| n.0 == t).map(|n| n.1).unwrap_or("table:long");
        env.class(label);
    }
    env.class(&format!("mps:{}", case.mps));
    env.sample(|| json!({"tables": case.tables, "mps": case.mps, "requests": case.requests.len()}));
    // (ii) direct
    let mut names: Vec<String> = table_names().iter().map(|n| n.0.to_string()).collect();
    names.push(long_table());
    names.extend(case.tables.iter().map(|t| format!("{}_", t)));
    names.extend(case.tables.iter().map(|t| t.to_uppercase()));
    if env.kf_active("KF-empty-table-name-dir") && !env.replay {
        names.retain(|n| !n.is_empty());
    }
    check_sanitize(&names, env)?;
    let _ = verif_is_filesystem_safe("x");
    // (i) database level
    if case.tables.iter().any(|t| t.is_empty()) && env.kf_active("KF-empty-table-name-dir") && !env.replay {
        env.excluded("KF-empty-table-name-dir");
        return Ok(());
    }
    let opts = DbOpts { max_partition_size_bytes: case.mps, partition_combine_factor: case.pcf, threads: 2, ..DbOpts::default() };
    let dir = db::temp_dir("c15");
    let mut model = DbModel::default();
    {
        let dbh = Db::open(&opts, Some(dir.path())).map_err(|f| Failure::from_fault(&f, "open"))?;
        for (i, r) in case.requests.iter().enumerate() {
            dbh.ingest(r.to_event_buffer()).map_err(|f| Failure::from_fault(&f, &format!("ingest {}", i)))?;
            model.apply(r);
            if case.flush_after.get(i).copied().unwrap_or(false) {
                dbh.flush().map_err(|f| Failure::from_fault(&f, "force_flush"))?;
            }
        }
        dbh.flush().map_err(|f| Failure::from_fault(&f, "final force_flush"))?;
        if let Some(p) = db::db_panics().first() {
            return Err(Failure::db_panic(p, "ingest/flush"));
        }
        dbh.close().map_err(|f| Failure::from_fault(&f, "close"))?;
    }
    // directory structure
    let files = db::list_dir(dir.path());
    let mut dirs_of_tables: BTreeMap<String, String> = BTreeMap::new();
    let all_tables: Vec<String> = model.tables.keys().cloned().chain(model.tables.keys().map(|t| format!("_meta_columns_{}", t))).chain(vec!["_meta_tables".to_string()]).collect();
    for t in &all_tables {
        let d = verif_sanitize_table_name(t);
        if let Some(other) = dirs_of_tables.insert(d.clone(), t.clone()) {
            return Err(Failure::mismatch(format!("tables {:?} and {:?} share the directory {:?}", other, t, d)).tag("shared_dir"));
        }
    }
    let mut files_per_dir: BTreeMap<String, usize> = BTreeMap::new();
    for (rel, _) in &files {
        if rel == "meta" || rel.starts_with("wal/") {
            continue;
        }
        let parts: Vec<&str> = rel.split('/').collect();
        if parts.len() != 3 || parts[0] != "tables" || !dirs_of_tables.contains_key(parts[1]) {
            return Err(Failure::mismatch(format!("file {:?} is not of the form tables/<table directory>/<file> for any of the tables {:?}", rel, all_tables)).tag("stray_file"));
        }
        *files_per_dir.entry(parts[1].to_string()).or_insert(0) += 1;
    }
    // nothing may have been written outside the database directory: the parent holds only our directory
    // (the temp dir is private to this case; siblings belong to other cases)
    let multi_file = model.tables.keys().any(|t| files_per_dir.get(&verif_sanitize_table_name(t)).copied().unwrap_or(0) >= 2);
    if multi_file {
        env.class("files_per_partition:>=2");
    }
    // restart: every partition cold; read columns one by one in the generated order
    let dbh = Db::open(&opts, Some(dir.path())).map_err(|f| Failure::from_fault(&f, "reopen"))?;
    let mut not_last = false;
    for (t, tm) in &model.tables {
        let stored: BTreeSet<String> = tm.cols.keys().cloned().collect();
        let mut targets: Vec<(String, Option<&'static str>)> = stored.iter().map(|s| (s.clone(), None)).collect();
        for (n, l) in absent_names(&stored) {
            targets.push((n, Some(l)));
        }
        let order: Vec<usize> = if case.read_order.is_empty() { (0..targets.len()).collect() } else { case.read_order.iter().map(|i| pick_idx(*i, targets.len())).chain(0..targets.len()).collect() };
        for idx in order {
            let (name, absent) = &targets[idx];
            if let Some(l) = absent {
                env.class(l);
            }
            let sql = format!("SELECT {} FROM {}", hist::quote(name), hist::quote(t));
            let r = dbh.query(&sql).map_err(|f| Failure::from_fault(&f, &format!("`{}` after restart", sql)))?;
            match r {
                Ok(out) => {
                    let got: Vec<Cell> = out.rows_any().into_iter().map(|r| r.into_iter().next().unwrap_or(Cell::Null)).collect();
                    let want: Vec<Cell> = match tm.cols.get(name) { Some(c) => c.clone(), None => vec![Cell::Null; tm.rows] };
                    if got != want {
                        let pos = got.iter().zip(want.iter()).position(|(a, b)| a != b);
                        return Err(Failure::mismatch(format!(
                            "`{}` after restart (tables {:?}, mps {}): {} column reads {:?} at row {:?}, the model has {:?} ({} vs {} rows)",
                            sql, case.tables, case.mps, if absent.is_some() { "ABSENT" } else { "stored" }, pos.map(|p| got[p].short()), pos, pos.map(|p| want[p].short()), got.len(), want.len()
                        ))
                        .tag(if absent.is_some() { "absent_read_as_value" } else { "wrong_column" }));
                    }
                    if absent.is_none() && stored.iter().next_back() != Some(name) {
                        not_last = true;
                    }
                }
                Err(e) => {
                    std::thread::sleep(std::time::Duration::from_millis(30));
                    if let Some(p) = db::db_panics().first() {
                        return Err(Failure::db_panic(p, &format!("`{}` after restart failed: {}", sql, e.short())));
                    }
                    return Err(Failure::mismatch(format!("`{}` after restart failed: {}", sql, e.short())).tag("query_error"));
                }
            }
        }
    }
    hist::check_catalogue(&dbh, &model, "after restart")?;
    if multi_file && not_last {
        env.nontrivial(&format!("{:?}", case));
    }
    dbh.close().map_err(|f| Failure::from_fault(&f, "close"))?;
    Ok(())
}

pub fn shard(ctx: &mut Ctx) {
    let n = ctx.tier.pick(900, 25000);
    let n = ctx.share(n);
    ctx.drive("names", case_strategy(), n, check);
}

pub fn replay(_sub: &str, case: &Value, env: &mut CaseEnv) -> Result<(), Failure> {
    let c: Case = serde_json::from_value(case.clone()).map_err(bad_case)?;
    check(&c, env)
}
