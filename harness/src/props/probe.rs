//! Manual probe: `verif probe q "<sql>" ...` runs queries against a small built-in table.

use std::collections::BTreeMap;

use crate::db::{Db, DbOpts};
use crate::model::{Batch, Cell, ColRep, Request};

pub fn sample_batches() -> Vec<Batch> {
    let mut out = vec![];
    for b in 0..3i64 {
        let rows = 4usize;
        let mut cols = BTreeMap::new();
        cols.insert("id".to_string(), ColRep::I64((0..rows as i64).map(|i| b * 4 + i).collect()));
        cols.insert(
            "n".to_string(),
            ColRep::Mixed(
                (0..rows as i64)
                    .map(|i| if (b * 4 + i) % 3 == 0 { Cell::Null } else { Cell::Int((b * 4 + i) % 4) })
                    .collect(),
            ),
        );
        cols.insert(
            "f".to_string(),
            ColRep::Mixed(
                (0..rows as i64)
                    .map(|i| if (b * 4 + i) % 5 == 0 { Cell::Null } else { Cell::float((b * 4 + i) as f64 * 0.5) })
                    .collect(),
            ),
        );
        cols.insert(
            "s".to_string(),
            ColRep::Str((0..rows as i64).map(|i| format!("s{}", (b * 4 + i) % 3)).collect()),
        );
        cols.insert("g".to_string(), ColRep::Dense((0..rows as i64).map(|i| crate::model::FBits::of((b + i) as f64)).collect()));
        cols.insert(
            "ns".to_string(),
            ColRep::Mixed(
                (0..rows as i64)
                    .map(|i| if (b * 4 + i) % 4 == 1 { Cell::Null } else { Cell::Str(format!("{}", ["", "a", "b"][((b * 4 + i) % 3) as usize])) })
                    .collect(),
            ),
        );
        cols.insert("nid".to_string(), ColRep::SparseI64((0..rows as u64).map(|i| (i, b * 4 + i as i64)).collect()));
        if b == 1 {
            cols.insert("late".to_string(), ColRep::I64(vec![7; rows]));
        }
        out.push(Batch { rows, cols });
    }
    out
}

pub fn run(args: &[String]) {
    crate::db::set_quiet(false);
    crate::db::set_call_deadline(std::time::Duration::from_secs(5));
    if args.first().map(|s| s.as_str()) == Some("case") {
        // probe case <replay.json> [sql...]: realise the table+layout of a query-property replay file
        let v: serde_json::Value = serde_json::from_str(&std::fs::read_to_string(&args[1]).unwrap()).unwrap();
        let t: crate::gen::LogicalTable = serde_json::from_value(v["case"]["table"].clone()).unwrap();
        // C02 cases carry two layouts: VERIF_PROBE_LAYOUT=b picks the second
        let key = if !v["case"]["layout"].is_null() { "layout" } else if std::env::var("VERIF_PROBE_LAYOUT").as_deref() == Ok("b") { "layout_b" } else { "layout_a" };
        let layout: crate::gen::Layout = serde_json::from_value(v["case"][key].clone()).unwrap();
        let (db, _d) = crate::qgen::realise(&t, &layout, "t").expect("realise");
        let mut sqls: Vec<String> = args[2..].to_vec();
        if sqls.is_empty() {
            if let Some(qs) = v["case"]["queries"].as_array() {
                for q in qs {
                    let q: crate::eval::Query = serde_json::from_value(q["q"].clone()).unwrap();
                    sqls.push(q.sql());
                }
            }
        }
        for sql in sqls {
            println!("> {}", sql);
            if std::env::var("VERIF_PROBE_EXPLAIN").is_ok() {
                let raw = db.raw().clone();
                let shows: Vec<usize> = std::env::var("VERIF_PROBE_SHOW").ok().map(|s| s.split(',').filter_map(|x| x.parse().ok()).collect()).unwrap_or_default();
                match futures::executor::block_on(raw.run_query(&sql, true, true, shows)) {
                    Ok(o) => {
                        for (plan, n) in &o.query_plans {
                            println!("--- plan x{}\n{}", n, plan);
                        }
                    }
                    Err(e) => println!("  explain ERR {:?}", e),
                }
            }
            match db.query(&sql) {
                Ok(Ok(o)) => println!("  {:?}", o),
                Ok(Err(e)) => println!("  ERR {}", e.short()),
                Err(f) => println!("  FAULT {}", f.short()),
            }
        }
        return;
    }
    if args.is_empty() {
        eprintln!("probe q [--disk] [--flush] <sql>...");
        return;
    }
    let mut disk = false;
    let mut flush = false;
    let mut sqls = vec![];
    for a in &args[1..] {
        match a.as_str() {
            "--disk" => disk = true,
            "--flush" => flush = true,
            s => sqls.push(s.to_string()),
        }
    }
    let dir = crate::db::temp_dir("probe");
    let opts = DbOpts::default();
    let db = Db::open(&opts, if disk { Some(dir.path()) } else { None }).expect("open");
    for b in sample_batches() {
        db.ingest(Request::single("t", b).to_event_buffer()).expect("ingest");
        if flush {
            db.flush().expect("flush");
        }
    }
    for sql in sqls {
        println!("> {}", sql);
        match db.query(&sql) {
            Ok(Ok(o)) => {
                println!("  colnames {:?}", o.colnames);
                for r in o.rows_any() {
                    println!("  {}", r.iter().map(|c| c.short()).collect::<Vec<_>>().join(" | "));
                }
                println!(
                    "  columns: {}",
                    o.columns.iter().map(|c| format!("{}:{}[{}]", c.0, c.1, c.2.len())).collect::<Vec<_>>().join(", ")
                );
            }
            Ok(Err(e)) => println!("  ERR {}", e.short()),
            Err(f) => println!("  FAULT {}", f.short()),
        }
    }
}
