//! C01 — ingested values come back unchanged from a plain SELECT.

use std::collections::{BTreeMap, BTreeSet};

use proptest::collection::vec;
use proptest::prelude::*;
use serde::{Deserialize, Serialize};
use serde_json::{json, Value};

use crate::db::{self, Db, DbOpts, QOut};
use crate::gen::{self, ColGenOpts, ColType, Storage};
use crate::model::{Batch, Cell, ColRep, Request, TableModel};
use crate::props::{bad_case, Entry};
use crate::runner::{CaseEnv, Ctx, Failure};

pub fn entry() -> Entry {
    Entry {
        id: "C01",
        shard,
        replay,
        level: "exploration",
        rule: "generated tables (1-4 columns x 1-3 batches, content classes of DESIGN 3.1) ingested through the native, wire or CSV path and read back with SELECT cols / SELECT * before flush, after flush and after reopen/evict; a case is non-trivial if it has >= 2 rows and >= 1 non-NULL cell; distinct = distinct (content class, null pattern, representation, length bucket, path, storage) tuples",
        assumptions: &[
            "value domain excludes i64::MAX and the NaN 0x7ffaaaaaaaaaaaaa (reserved by the engine, as the property says)",
            "type-mixing columns are judged by the documented degradation only (value preserved up to int->float / number->string coercion)",
            "CSV cells are restricted to what the loader's documented inference maps back to the supplied value",
        ],
        quick_budget_s: 900,
        thorough_budget_s: 7200,
        required_classes: &[
            "int:u8", "int:u16", "int:u32", "int:u8_offset", "int:u16_offset", "int:u32_offset", "int:width_boundary",
            "int:full_i64", "int:increasing_run", "float:special", "float:f32_exact", "float:general",
            "str:length_boundary", "str:unicode", "str:lower_hex", "str:upper_hex", "str:dict_threshold", "str:low_cardinality",
            "nulls:none", "nulls:all", "nulls:random", "rep:dense", "rep:sparse", "rep:sparse_i64", "rep:mixed", "rep:empty", "rep:absent",
            "path:native", "path:wire", "path:csv", "len:7", "len:8", "len:9", "len:63", "len:64", "len:65",
        ],
        exhaustive_claim: false,
    }
}

#[derive(Clone, Debug, PartialEq, Serialize, Deserialize)]
pub enum IngestPath {
    Native,
    Wire,
    Csv { allow_nulls: bool, partition_size: usize },
}

#[derive(Clone, Debug, Serialize, Deserialize)]
pub struct Case {
    pub batches: Vec<Batch>,
    pub flush_between: Vec<bool>,
    pub path: IngestPath,
    pub storage: Storage,
    pub opts: DbOpts,
    /// columns that receive more than one value type (judged by the degradation rule)
    pub mixing_cols: Vec<String>,
    pub labels: Vec<String>,
}

#[derive(Clone, Debug)]
enum ColPlan {
    Stable(ColType),
    Mixing,
}

fn mixed_cells(n: usize) -> BoxedStrategy<Vec<Cell>> {
    vec(
        prop_oneof![
            2 => Just(Cell::Null),
            3 => (-1000i64..1000).prop_map(Cell::Int),
            1 => any::<i64>().prop_map(|i| Cell::Int(if i == i64::MAX { 0 } else { i })),
            3 => prop_oneof![Just(1.5f64), Just(-0.25), Just(1e10), Just(3.0), (-1000i32..1000).prop_map(|x| x as f64 / 4.0)].prop_map(Cell::float),
            3 => "[a-z0-9]{0,5}".prop_map(Cell::Str),
        ],
        n,
    )
    .boxed()
}

fn column_for_batch(plan: &ColPlan, rows: usize, extreme: bool) -> BoxedStrategy<(Option<ColRep>, Vec<String>)> {
    let o = ColGenOpts { allow_extreme_ints: extreme, allow_nan: true, ascii_only: false, nullable: true };
    match plan {
        ColPlan::Stable(ty) => {
            let ty = *ty;
            (gen::typed_column(ty, rows, &o), any::<u8>(), 0u8..8)
                .prop_map(move |(gc, variant, absent)| {
                    let mut labels = vec![gc.class.clone(), gc.nulls.clone()];
                    if absent == 0 {
                        labels.push("rep:absent".into());
                        return (None, labels);
                    }
                    let rep = ColRep::for_cells(&gc.cells, variant);
                    match &rep {
                        Some(r) => labels.push(format!("rep:{}", r.kind())),
                        None => labels.push("rep:absent".into()),
                    }
                    // short dense: drop trailing NULLs from a dense column (server pads)
                    (rep, labels)
                })
                .boxed()
        }
        ColPlan::Mixing => (
            prop_oneof![
                2 => mixed_cells(rows).prop_map(|c| Some(ColRep::Mixed(c))),
                1 => gen::typed_column(ColType::Int, rows, &o).prop_map(|g| ColRep::for_cells(&g.cells, 0)),
                1 => gen::typed_column(ColType::Float, rows, &ColGenOpts { allow_nan: false, ..ColGenOpts { allow_extreme_ints: false, allow_nan: false, ascii_only: true, nullable: true } }).prop_map(|g| ColRep::for_cells(&g.cells, 0)),
                1 => gen::typed_column(ColType::Str, rows, &ColGenOpts { allow_extreme_ints: false, allow_nan: false, ascii_only: true, nullable: false }).prop_map(|g| ColRep::for_cells(&g.cells, 0)),
            ],
        )
            .prop_map(|(rep,)| {
                let labels = vec!["mixing".to_string(), format!("rep:{}", rep.as_ref().map(|r| r.kind()).unwrap_or("absent"))];
                (rep, labels)
            })
            .boxed(),
    }
}

fn api_case(max_rows: usize, extreme: bool) -> BoxedStrategy<Case> {
    (
        1usize..=4,
        vec(gen::row_count(max_rows), 1..=3),
        vec(any::<bool>(), 3),
        prop_oneof![Just(IngestPath::Native), Just(IngestPath::Wire)],
        gen::storage(),
        gen::db_opts(),
    )
        .prop_flat_map(move |(ncols, rows, flush_between, path, storage, opts)| {
            let plans = vec(
                prop_oneof![
                    3 => Just(ColPlan::Stable(ColType::Int)),
                    3 => Just(ColPlan::Stable(ColType::Float)),
                    3 => Just(ColPlan::Stable(ColType::Str)),
                    1 => Just(ColPlan::Mixing),
                ],
                ncols,
            );
            let rows2 = rows.clone();
            plans.prop_flat_map(move |plans| {
                let mut per_batch = vec![];
                for r in &rows2 {
                    let cols: Vec<_> = plans.iter().map(|p| column_for_batch(p, *r, extreme)).collect();
                    per_batch.push(cols);
                }
                let plans2 = plans.clone();
                let rows3 = rows2.clone();
                let flush_between = flush_between.clone();
                let path = path.clone();
                let opts = opts.clone();
                per_batch.prop_map(move |cols_per_batch| {
                    let mut labels = BTreeSet::new();
                    let mut batches = vec![];
                    for (bi, cols) in cols_per_batch.into_iter().enumerate() {
                        let rows = rows3[bi];
                        let mut m = BTreeMap::new();
                        for (ci, (rep, ls)) in cols.into_iter().enumerate() {
                            labels.extend(ls);
                            if let Some(rep) = rep {
                                m.insert(format!("c{}", ci), rep);
                            }
                        }
                        if m.is_empty() {
                            m.insert("c0".to_string(), ColRep::Empty);
                            labels.insert("rep:empty".into());
                        }
                        labels.insert(format!("len:{}", rows));
                        batches.push(Batch { rows, cols: m });
                    }
                    let mixing_cols = plans2
                        .iter()
                        .enumerate()
                        .filter(|(_, p)| matches!(p, ColPlan::Mixing))
                        .map(|(i, _)| format!("c{}", i))
                        .collect();
                    labels.insert(match path {
                        IngestPath::Native => "path:native".to_string(),
                        IngestPath::Wire => "path:wire".to_string(),
                        IngestPath::Csv { .. } => "path:csv".to_string(),
                    });
                    labels.insert(format!("storage:{:?}", storage));
                    Case {
                        batches,
                        flush_between: flush_between.clone(),
                        path: path.clone(),
                        storage,
                        opts: opts.clone(),
                        mixing_cols,
                        labels: labels.into_iter().collect(),
                    }
                })
            })
        })
        .boxed()
}

fn csv_safe_string() -> BoxedStrategy<String> {
    // strings that do not parse as a number and are not empty
    prop_oneof![
        "[a-z]{1,8}",
        "[A-Za-z][A-Za-z0-9 _,\"'-]{0,10}",
        Just("héllo, wörld".to_string()),
        Just("line\nbreak".to_string()),
        Just(crate::gen::long_string(300)),
        "[0-9a-f]{2}x",
    ]
    .prop_filter("must not parse as number", |s| {
        s.parse::<i64>().is_err() && s.parse::<f64>().is_err() && !s.is_empty() && s.trim() == s
    })
    .boxed()
}

fn csv_case(max_rows: usize) -> BoxedStrategy<Case> {
    (1usize..=3, gen::row_count(max_rows), any::<bool>(), 0u8..4, gen::storage(), gen::db_opts())
        .prop_flat_map(|(ncols, rows, allow_nulls, ps, storage, opts)| {
            let cols = vec(
                (gen::any_col_type(), any::<bool>()).prop_flat_map(move |(ty, nullable)| {
                    let o = ColGenOpts { allow_extreme_ints: false, allow_nan: false, ascii_only: false, nullable: nullable && allow_nulls };
                    match ty {
                        ColType::Str => (vec(csv_safe_string(), rows), gen::null_pattern(rows))
                            .prop_map(move |(v, (np, mask))| crate::gen::GenCol {
                                class: "str:csv".into(),
                                nulls: if nullable && allow_nulls { np } else { "nulls:none".into() },
                                cells: v
                                    .into_iter()
                                    .zip(mask)
                                    .map(|(s, m)| if m && nullable && allow_nulls { Cell::Null } else { Cell::Str(s) })
                                    .collect(),
                            })
                            .boxed(),
                        _ => gen::typed_column(ty, rows, &o),
                    }
                }),
                ncols,
            );
            cols.prop_map(move |cols| {
                let mut m = BTreeMap::new();
                let mut labels = BTreeSet::new();
                for (i, gc) in cols.into_iter().enumerate() {
                    labels.insert(gc.class.clone());
                    labels.insert(gc.nulls.clone());
                    m.insert(format!("c{}", i), ColRep::Mixed(gc.cells));
                }
                let partition_size = match ps {
                    0 => (rows / 2).max(1),
                    1 => rows,
                    2 => rows + 1,
                    _ => 1 << 16,
                };
                labels.insert("path:csv".into());
                labels.insert(format!("len:{}", rows));
                labels.insert(format!("storage:{:?}", storage));
                labels.insert("rep:mixed".into());
                Case {
                    batches: vec![Batch { rows, cols: m }],
                    flush_between: vec![false],
                    path: IngestPath::Csv { allow_nulls, partition_size },
                    storage,
                    opts: DbOpts { threads: opts.threads.max(2), ..opts.clone() },
                    mixing_cols: vec![],
                    labels: labels.into_iter().collect(),
                }
            })
        })
        .boxed()
}

fn csv_text(b: &Batch) -> String {
    fn field(s: &str) -> String {
        if s.contains(',') || s.contains('"') || s.contains('\n') || s.contains('\r') {
            format!("\"{}\"", s.replace('"', "\"\""))
        } else {
            s.to_string()
        }
    }
    let names: Vec<&String> = b.cols.keys().collect();
    let cells: Vec<Vec<Cell>> = b.cols.values().map(|c| c.cells(b.rows)).collect();
    let mut out = names.iter().map(|n| field(n)).collect::<Vec<_>>().join(",");
    out.push('\n');
    for r in 0..b.rows {
        let row: Vec<String> = cells
            .iter()
            .map(|c| match &c[r] {
                Cell::Null => String::new(),
                Cell::Int(i) => i.to_string(),
                Cell::Float(f) => format!("{:?}", f.get()),
                Cell::Str(s) => field(s),
            })
            .collect();
        // a record consisting of one empty field must be quoted, or the csv reader skips the line
        if row.len() == 1 && row[0].is_empty() {
            out.push_str("\"\"");
        } else {
            out.push_str(&row.join(","));
        }
        out.push('\n');
    }
    out
}

fn float_eq_bits(a: f64, b: f64) -> bool {
    a.to_bits() == b.to_bits()
}

/// Is `got` an acceptable read-back of `exp` for a column that received several types?
fn degraded_ok(exp: &Cell, got: &Cell) -> bool {
    if exp == got {
        return true;
    }
    match (exp, got) {
        (Cell::Null, _) | (_, Cell::Null) => false,
        (Cell::Int(i), Cell::Float(f)) => float_eq_bits(*i as f64, f.get()),
        (Cell::Int(i), Cell::Str(s)) => {
            s.parse::<i64>().map(|x| x == *i).unwrap_or(false)
                || s.parse::<f64>().map(|x| x == *i as f64).unwrap_or(false)
        }
        (Cell::Float(f), Cell::Str(s)) => s
            .parse::<f64>()
            .map(|x| float_eq_bits(x, f.get()) || (x.is_nan() && f.get().is_nan()))
            .unwrap_or(false),
        _ => false,
    }
}

fn compare(model: &TableModel, out: &QOut, names: &[String], mixing: &[String], stage: &str, sql: &str) -> Result<(), Failure> {
    if out.colnames != names {
        return Err(Failure::mismatch(format!("{}: `{}` colnames {:?}, expected {:?}", stage, sql, out.colnames, names)));
    }
    for (view, rows) in [("rows", out.rows.clone()), ("columns", Some(out.rows_from_columns()))] {
        let rows = match rows {
            Some(r) => r,
            None => continue,
        };
        if view == "columns" && out.columns.len() != names.len() {
            return Err(Failure::mismatch(format!(
                "{}: `{}` column view has {} columns, expected {}",
                stage,
                sql,
                out.columns.len(),
                names.len()
            )));
        }
        if rows.len() != model.rows {
            return Err(Failure::mismatch(format!(
                "{}: `{}` {} view has {} rows, model has {}",
                stage,
                sql,
                view,
                rows.len(),
                model.rows
            )));
        }
        for (ri, row) in rows.iter().enumerate() {
            for (ci, name) in names.iter().enumerate() {
                let exp = &model.cols[name][ri];
                let got = &row[ci];
                let ok = if mixing.contains(name) { degraded_ok(exp, got) } else { exp == got };
                if !ok {
                    return Err(Failure::mismatch(format!(
                        "{}: `{}` {} view row {} column {}: got {}, expected {}",
                        stage,
                        sql,
                        view,
                        ri,
                        name,
                        got.short(),
                        exp.short()
                    ))
                    .tag(if mixing.contains(name) { "mixing" } else { "stable" })
                    .observed(json!({"row": ri, "column": name, "got": got, "expected": exp})));
                }
            }
        }
    }
    Ok(())
}

fn read_back(db: &Db, model: &TableModel, mixing: &[String], stage: &str) -> Result<(), Failure> {
    let names: Vec<String> = model.cols.keys().cloned().collect();
    let list = names.iter().map(|n| format!("\"{}\"", n)).collect::<Vec<_>>().join(", ");
    for sql in [format!("SELECT {} FROM t", list), "SELECT * FROM t".to_string()] {
        let r = db.query(&sql).map_err(|f| Failure::from_fault(&f, &format!("{}: `{}`", stage, sql)))?;
        match r {
            Ok(out) => compare(model, &out, &names, mixing, stage, &sql)?,
            Err(e) => {
                // give the worker a moment to record its panic
                if e == db::QErr::Canceled {
                    std::thread::sleep(std::time::Duration::from_millis(50));
                }
                if let Some(p) = db::db_panics().first() {
                    return Err(Failure::db_panic(p, &format!("{}: `{}` failed: {}", stage, sql, e.short())));
                }
                return Err(Failure::mismatch(format!("{}: `{}` failed: {}", stage, sql, e.short())).tag("query_error"));
            }
        }
    }
    if let Some(p) = db::db_panics().first() {
        return Err(Failure::db_panic(p, stage));
    }
    Ok(())
}

pub fn check(case: &Case, env: &mut CaseEnv) -> Result<(), Failure> {
    for b in &case.batches {
        if !b.well_formed() {
            return Err(bad_case("batch not well-formed"));
        }
    }
    env.classes(case.labels.iter().cloned());
    let mut model = TableModel::default();
    for b in &case.batches {
        model.append(b);
    }
    let non_null = model.cols.values().flat_map(|c| c.iter()).filter(|c| !c.is_null()).count();
    if model.rows >= 2 && non_null >= 1 {
        let mut key: Vec<String> = case
            .labels
            .iter()
            .filter(|l| !l.starts_with("len:"))
            .cloned()
            .collect();
        key.push(format!("lenbucket:{}", model.rows.min(70) / 4));
        env.nontrivial(&key.join("|"));
    }
    env.sample(|| {
        json!({"path": format!("{:?}", case.path), "storage": format!("{:?}", case.storage), "rows": model.rows,
               "classes": case.labels, "first_batch": case.batches[0]})
    });

    let dir = db::temp_dir("c01");
    let on_disk = case.storage != Storage::Memory;
    let db = Db::open(&case.opts, if on_disk { Some(dir.path()) } else { None })
        .map_err(|f| Failure::from_fault(&f, "open"))?;

    match &case.path {
        IngestPath::Csv { allow_nulls, partition_size } => {
            let file = dir.path().join("input.csv");
            std::fs::write(&file, csv_text(&case.batches[0])).expect("write csv");
            let mut lo = locustdb::LoadOptions::new(&file, "t").with_partition_size(*partition_size);
            if *allow_nulls {
                lo = lo.allow_nulls_all_columns();
            }
            let raw = db.raw().clone();
            let r = db::with_deadline("load_csv", db::call_deadline(), move || {
                let rt = tokio::runtime::Builder::new_current_thread().build().unwrap();
                rt.block_on(raw.load_csv(lo)).map_err(|e| e.to_string())
            })
            .map_err(|f| Failure::from_fault(&f, "load_csv"))?;
            if let Err(e) = r {
                return Err(Failure::mismatch(format!("load_csv failed: {}", e)));
            }
            // CSV semantics: without allow_nulls nothing is NULL. The generator only produces NULL cells
            // when allow_nulls is set, so the model needs no adjustment.
        }
        p => {
            for (i, b) in case.batches.iter().enumerate() {
                let req = Request::single("t", b.clone());
                let eb = if *p == IngestPath::Native { req.to_event_buffer_native() } else { req.to_event_buffer() };
                db.ingest(eb).map_err(|f| Failure::from_fault(&f, &format!("ingest batch {}", i)))?;
                if case.flush_between.get(i).copied().unwrap_or(false) && i + 1 < case.batches.len() {
                    db.flush().map_err(|f| Failure::from_fault(&f, "force_flush"))?;
                }
            }
        }
    }
    read_back(&db, &model, &case.mixing_cols, "before final flush")?;
    db.flush().map_err(|f| Failure::from_fault(&f, "force_flush"))?;
    read_back(&db, &model, &case.mixing_cols, "after flush")?;
    match case.storage {
        Storage::Memory | Storage::Disk => {}
        Storage::DiskEvicted => {
            db.evict().map_err(|f| Failure::from_fault(&f, "evict_cache"))?;
            read_back(&db, &model, &case.mixing_cols, "after evict")?;
        }
        Storage::DiskReopened => {
            db.close().map_err(|f| Failure::from_fault(&f, "close"))?;
            let db2 = Db::open(&case.opts, Some(dir.path())).map_err(|f| Failure::from_fault(&f, "reopen"))?;
            read_back(&db2, &model, &case.mixing_cols, "after reopen")?;
            db2.close().map_err(|f| Failure::from_fault(&f, "close"))?;
            return Ok(());
        }
    }
    db.close().map_err(|f| Failure::from_fault(&f, "close"))?;
    Ok(())
}

pub fn shard(ctx: &mut Ctx) {
    let extreme = !ctx.kf.active("KF-int-range-overflow");
    let (api_n, csv_n, max_rows) = ctx.tier.pick((3000, 600, 70), (60000, 12000, 300));
    let n = ctx.share(api_n);
    ctx.drive("api", api_case(max_rows, extreme), n, check);
    let n = ctx.share(csv_n);
    ctx.drive("csv", csv_case(max_rows), n, check);
}

pub fn replay(_sub: &str, case: &Value, env: &mut CaseEnv) -> Result<(), Failure> {
    let c: Case = serde_json::from_value(case.clone()).map_err(bad_case)?;
    check(&c, env)
}
