//! C11 — every call completes; a failing request does not damage the database.

use std::collections::BTreeMap;
use std::sync::Arc;

use proptest::collection::vec;
use proptest::prelude::*;
use serde::{Deserialize, Serialize};
use serde_json::{json, Value};

use crate::db::{self, Db, DbOpts, Fault};
use crate::model::{Batch, Cell, ColRep, FBits, Request};
use crate::props::{bad_case, Entry};
use crate::runner::{CaseEnv, Ctx, Failure};

pub fn entry() -> Entry {
    Entry {
        id: "C11",
        shard,
        replay,
        level: "exploration",
        rule: "generated sequences of valid requests (queries, ingestion, force_flush, table_stats, mem_tree) and failing requests from a catalogue (bad SQL, type errors, unsupported constructs, overflow, unknown table, out-of-range LIMIT/OFFSET, invalid regex, constant-only select items, to_year out of range, aggregates that panic inside the engine) issued from 1-3 client threads against a database with 1-4 workers, memory-only or on disk (with a restart); after every request (single client) or after the concurrent phase a canary runs (count query against a model, a tiny ingest, table_stats), and at the end workers+1 concurrent canaries, an ingest and a force_flush must all complete; every call must return within the deadline; non-trivial = a failing request followed by at least `workers` further requests; distinct = canonical sequence text",
        assumptions: &["a panic inside the engine that is reported to the caller as an error value and leaves the database serving is not a violation of this property (C12 judges answers)"],
        quick_budget_s: 1200,
        thorough_budget_s: 7200,
        required_classes: &["req:valid_query", "req:failing_query", "req:ingest", "req:flush", "req:stats", "req:mem_tree", "fail:parse", "fail:type", "fail:unsupported", "fail:overflow", "fail:unknown_table", "fail:limit_offset", "fail:regex", "fail:const_select", "fail:engine_panic", "clients:1", "clients:3", "workers:1", "workers:4", "storage:disk", "storage:memory", "restart"],
        exhaustive_claim: false,
    }
}

#[derive(Clone, Debug, PartialEq, Serialize, Deserialize)]
pub enum Req {
    /// (sql, label)
    Query(String, String),
    Ingest(u8),
    Flush,
    Stats,
    MemTree,
    Restart,
}

#[derive(Clone, Debug, Serialize, Deserialize)]
pub struct Case {
    pub workers: usize,
    pub clients: usize,
    pub on_disk: bool,
    pub pcf: u64,
    pub reqs: Vec<Req>,
}

pub fn failing_queries() -> Vec<(&'static str, &'static str)> {
    vec![
        ("SELEC id FROM t", "fail:parse"),
        ("SELECT id FROM", "fail:parse"),
        ("", "fail:parse"),
        ("SELECT id FROM t; SELECT id FROM t", "fail:parse"),
        ("SELECT id FROM t WHERE", "fail:parse"),
        ("SELECT id FROM t LIMIT 1.5", "fail:limit_offset"),
        ("SELECT id FROM t LIMIT 99999999999999999999999", "fail:limit_offset"),
        ("SELECT id FROM t OFFSET 1.5", "fail:limit_offset"),
        ("SELECT id FROM t LIMIT 2 OFFSET 1000", "fail:limit_offset"),
        ("SELECT id FROM t ORDER BY id LIMIT 0", "fail:limit_offset"),
        ("SELECT id FROM t OFFSET 3", "fail:limit_offset"),
        ("SELECT s + 1 FROM t", "fail:type"),
        ("SELECT id FROM t WHERE s > 3", "fail:type"),
        ("SELECT length(id) FROM t", "fail:type"),
        ("SELECT sum(s) FROM t", "fail:type"),
        ("SELECT id FROM t WHERE id", "fail:type"),
        ("SELECT id FROM t GROUP BY id", "fail:unsupported"),
        ("SELECT DISTINCT id FROM t", "fail:unsupported"),
        ("SELECT id FROM t JOIN u ON t.id = u.id", "fail:unsupported"),
        ("SELECT id FROM t WHERE id IN (1, 2)", "fail:unsupported"),
        ("SELECT id FROM t WHERE id BETWEEN 1 AND 2", "fail:unsupported"),
        ("SELECT CASE WHEN id = 1 THEN 2 ELSE 3 END FROM t", "fail:unsupported"),
        ("SELECT (SELECT 1) FROM t", "fail:unsupported"),
        ("SELECT count(*) FROM t", "fail:unsupported"),
        ("INSERT INTO t VALUES (1)", "fail:unsupported"),
        ("SELECT id * 9223372036854775806 FROM t", "fail:overflow"),
        ("SELECT sum(big) FROM t", "fail:overflow"),
        ("SELECT id / 0 FROM t", "fail:overflow"),
        ("SELECT id % (id - id) FROM t", "fail:overflow"),
        ("SELECT id FROM no_such_table", "fail:unknown_table"),
        ("SELECT * FROM no_such_table", "fail:unknown_table"),
        ("SELECT id FROM t WHERE regex(s, '(')", "fail:regex"),
        ("SELECT id FROM t WHERE regex(s, '[')", "fail:regex"),
        ("SELECT 1 FROM t", "fail:const_select"),
        ("SELECT 'x' FROM t", "fail:const_select"),
        ("SELECT -5 FROM t", "fail:const_select"),
        ("SELECT to_year(id * 100000000000000) FROM t", "fail:engine_panic"),
        ("SELECT avg(f) FROM t", "fail:engine_panic"),
        ("SELECT id FROM t ORDER BY n LIMIT 1", "fail:engine_panic"),
        ("SELECT n, f, count(1) FROM t", "fail:engine_panic"),
        ("SELECT id FROM t WHERE NOT (n = 1)", "fail:fatal"),
        ("SELECT nid FROM t WHERE nosuch = 0", "fail:fatal"),
        ("SELECT f, count(1) FROM t", "fail:fatal"),
    ]
}

pub fn valid_queries() -> Vec<&'static str> {
    vec![
        "SELECT id FROM t",
        "SELECT id, s FROM t WHERE id > 3",
        "SELECT count(1) FROM t",
        "SELECT s, count(1) FROM t",
        "SELECT id FROM t ORDER BY id DESC LIMIT 3",
        "SELECT * FROM t LIMIT 2",
        "SELECT sum(id), max(id) FROM t",
        "SELECT id + 1 FROM t WHERE s = 'a'",
        "SELECT nosuch FROM t",
        "SELECT name FROM _meta_tables",
    ]
}

fn req() -> BoxedStrategy<Req> {
    let fq = failing_queries();
    let vq = valid_queries();
    prop_oneof![
        5 => proptest::sample::select(fq).prop_map(|(q, l)| Req::Query(q.to_string(), l.to_string())),
        3 => proptest::sample::select(vq).prop_map(|q| Req::Query(q.to_string(), "req:valid_query".to_string())),
        2 => (0u8..4).prop_map(Req::Ingest),
        1 => Just(Req::Flush),
        1 => Just(Req::Stats),
        1 => Just(Req::MemTree),
        1 => Just(Req::Restart),
    ]
    .boxed()
}

fn case_strategy(max_len: usize) -> BoxedStrategy<Case> {
    (
        prop_oneof![Just(1usize), Just(2), Just(4)],
        prop_oneof![3 => Just(1usize), 1 => Just(2), 1 => Just(3)],
        any::<bool>(),
        prop_oneof![Just(0u64), Just(1), Just(999)],
        vec(req(), 1..max_len),
    )
        .prop_map(|(workers, clients, on_disk, pcf, reqs)| Case { workers, clients, on_disk, pcf, reqs })
        .boxed()
}

fn base_batch(start: i64, n: usize) -> Batch {
    let mut cols = BTreeMap::new();
    cols.insert("id".to_string(), ColRep::I64((0..n as i64).map(|i| start + i).collect()));
    cols.insert("s".to_string(), ColRep::Str((0..n as i64).map(|i| ["a", "b", "c"][((start + i) % 3) as usize].to_string()).collect()));
    cols.insert("n".to_string(), ColRep::Mixed((0..n as i64).map(|i| if (start + i) % 3 == 0 { Cell::Null } else { Cell::Int((start + i) % 5) }).collect()));
    cols.insert("f".to_string(), ColRep::Mixed((0..n as i64).map(|i| if (start + i) % 4 == 0 { Cell::Null } else { Cell::float((start + i) as f64 * 0.5) }).collect()));
    cols.insert("big".to_string(), ColRep::I64((0..n).map(|_| i64::MAX / 2).collect()));
    cols.insert("nid".to_string(), ColRep::SparseI64((0..n as u64).map(|i| (i, start + i as i64)).collect()));
    let _ = FBits::of(0.0);
    Batch { rows: n, cols }
}

struct State {
    canary_rows: i64,
    t_rows: i64,
}

fn canary(dbh: &Db, st: &mut State, stage: &str) -> Result<(), Failure> {
    // tiny ingest
    let mut cols = BTreeMap::new();
    cols.insert("k".to_string(), ColRep::I64(vec![st.canary_rows]));
    dbh.ingest(Request::single("canary", Batch { rows: 1, cols }).to_event_buffer())
        .map_err(|f| Failure::from_fault(&f, &format!("{}: canary ingest", stage)).tag("canary"))?;
    st.canary_rows += 1;
    // count query against the model
    for (sql, want) in [("SELECT count(1) FROM canary", st.canary_rows), ("SELECT count(1) FROM t", st.t_rows)] {
        let r = dbh.query(sql).map_err(|f| Failure::from_fault(&f, &format!("{}: canary `{}`", stage, sql)).tag("canary"))?;
        match r {
            Ok(out) => {
                let got = out.rows_any();
                if got != vec![vec![Cell::Int(want)]] {
                    return Err(Failure::mismatch(format!("{}: canary `{}` = {:?}, expected {}", stage, sql, got, want)).tag("canary"));
                }
            }
            Err(e) => return Err(Failure::mismatch(format!("{}: canary `{}` failed: {}", stage, sql, e.short())).tag("canary")),
        }
    }
    // statistics call
    let raw = dbh.raw().clone();
    db::with_deadline("table_stats", db::call_deadline(), move || futures::executor::block_on(raw.table_stats()).map(|v| v.len()).map_err(|_| ()))
        .map_err(|f| Failure::from_fault(&f, &format!("{}: canary table_stats", stage)).tag("canary"))?
        .map_err(|_| Failure::mismatch(format!("{}: canary table_stats was cancelled", stage)).tag("canary"))?;
    Ok(())
}

fn run_req(dbh: &Db, r: &Req, st_t_rows: &std::sync::atomic::AtomicI64) -> Result<(), Fault> {
    match r {
        Req::Query(sql, _) => dbh.query(sql).map(|_| ()),
        Req::Ingest(k) => {
            let n = *k as usize + 1;
            let start = st_t_rows.fetch_add(n as i64, std::sync::atomic::Ordering::SeqCst);
            dbh.ingest(Request::single("t", base_batch(start, n)).to_event_buffer())
        }
        Req::Flush => dbh.flush(),
        Req::Stats => {
            let raw = dbh.raw().clone();
            db::with_deadline("table_stats", db::call_deadline(), move || {
                let _ = futures::executor::block_on(raw.table_stats());
            })
        }
        Req::MemTree => {
            let raw = dbh.raw().clone();
            db::with_deadline("mem_tree", db::call_deadline(), move || {
                let _ = futures::executor::block_on(raw.mem_tree(2, None));
            })
        }
        Req::Restart => Ok(()),
    }
}

pub fn check(case: &Case, env: &mut CaseEnv) -> Result<(), Failure> {
    env.class(&format!("clients:{}", case.clients));
    env.class(&format!("workers:{}", case.workers));
    env.class(if case.on_disk { "storage:disk" } else { "storage:memory" });
    let desc = format!(
        "workers={} clients={} disk={} pcf={} :: {}",
        case.workers,
        case.clients,
        case.on_disk,
        case.pcf,
        case.reqs.iter().map(|r| match r { Req::Query(q, _) => format!("`{}`", q), r => format!("{:?}", r) }).collect::<Vec<_>>().join(" ; ")
    );
    env.sample(|| json!({"sequence": desc}));
    let opts = DbOpts { threads: case.workers, partition_combine_factor: case.pcf, ..DbOpts::default() };
    let dir = db::temp_dir("c11");
    let path = if case.on_disk { Some(dir.path()) } else { None };
    let mut dbh = Db::open(&opts, path).map_err(|f| Failure::from_fault(&f, "open"))?;
    let t_rows = std::sync::atomic::AtomicI64::new(0);
    run_req(&dbh, &Req::Ingest(5), &t_rows).map_err(|f| Failure::from_fault(&f, "initial ingest"))?;
    let mut st = State { canary_rows: 0, t_rows: 6 };
    let mut failing_at: Option<usize> = None;
    let mut nontrivial = false;
    // split into phases at Restart
    let mut i = 0;
    while i < case.reqs.len() {
        let end = case.reqs[i..].iter().position(|r| *r == Req::Restart).map(|p| i + p).unwrap_or(case.reqs.len());
        let phase = &case.reqs[i..end];
        for r in phase {
            match r {
                Req::Query(_, l) => {
                    env.class(if l == "req:valid_query" { "req:valid_query" } else { "req:failing_query" });
                    env.class(l);
                }
                Req::Ingest(_) => env.class("req:ingest"),
                Req::Flush => env.class("req:flush"),
                Req::Stats => env.class("req:stats"),
                Req::MemTree => env.class("req:mem_tree"),
                Req::Restart => {}
            }
        }
        if case.clients == 1 {
            for (j, r) in phase.iter().enumerate() {
                let stage = format!("request {} {:?} of [{}]", i + j, r, desc);
                run_req(&dbh, r, &t_rows).map_err(|f| Failure::from_fault(&f, &stage))?;
                st.t_rows = t_rows.load(std::sync::atomic::Ordering::SeqCst);
                if matches!(r, Req::Query(_, l) if l != "req:valid_query") && failing_at.is_none() {
                    failing_at = Some(i + j);
                }
                if let Some(f) = failing_at {
                    if i + j >= f + case.workers {
                        nontrivial = true;
                    }
                }
                db::clear_panics();
                canary(&dbh, &mut st, &format!("after {}", stage))?;
            }
        } else {
            // concurrent clients: round-robin split, each client runs its share in order
            let dbh_arc = Arc::new(dbh);
            let t_rows_arc = Arc::new(std::sync::atomic::AtomicI64::new(t_rows.load(std::sync::atomic::Ordering::SeqCst)));
            let mut handles = vec![];
            for c in 0..case.clients {
                let mine: Vec<Req> = phase.iter().enumerate().filter(|(k, _)| k % case.clients == c).map(|(_, r)| r.clone()).collect();
                let d = dbh_arc.clone();
                let tr = t_rows_arc.clone();
                handles.push(
                    std::thread::Builder::new()
                        .name(format!("vh-client-{}", c))
                        .spawn(move || -> Result<(), (Req, Fault)> {
                            for r in mine {
                                run_req(&d, &r, &tr).map_err(|f| (r.clone(), f))?;
                            }
                            Ok(())
                        })
                        .unwrap(),
                );
            }
            let mut first_err = None;
            for h in handles {
                if let Ok(Err(e)) = h.join() {
                    first_err.get_or_insert(e);
                }
            }
            t_rows.store(t_rows_arc.load(std::sync::atomic::Ordering::SeqCst), std::sync::atomic::Ordering::SeqCst);
            dbh = match Arc::try_unwrap(dbh_arc) {
                Ok(d) => d,
                Err(_) => return Err(Failure::error("client thread still holds the database handle")),
            };
            if let Some((r, f)) = first_err {
                return Err(Failure::from_fault(&f, &format!("concurrent request {:?} of [{}]", r, desc)));
            }
            st.t_rows = t_rows.load(std::sync::atomic::Ordering::SeqCst);
            if phase.iter().any(|r| matches!(r, Req::Query(_, l) if l != "req:valid_query")) && phase.len() > case.workers {
                nontrivial = true;
            }
            db::clear_panics();
            canary(&dbh, &mut st, &format!("after concurrent phase ending at request {} of [{}]", end, desc))?;
        }
        if end < case.reqs.len() {
            // Restart
            env.class("restart");
            if case.on_disk {
                db::wait_flush_idle(dbh.instance, std::time::Duration::from_secs(20));
                dbh.close().map_err(|f| Failure::from_fault(&f, "close"))?;
                dbh = Db::open(&opts, path).map_err(|f| Failure::from_fault(&f, "reopen"))?;
                canary(&dbh, &mut st, &format!("after restart at request {} of [{}]", end, desc))?;
            }
        }
        i = end + 1;
    }
    // final: workers+1 concurrent canaries must all be answered (no worker lost), flush thread alive
    let dbh_arc = Arc::new(dbh);
    let mut hs = vec![];
    for c in 0..(case.workers + 1) {
        let d = dbh_arc.clone();
        let want = st.t_rows;
        hs.push(std::thread::Builder::new().name(format!("vh-final-{}", c)).spawn(move || -> Result<(), String> {
            match d.query("SELECT count(1) FROM t") {
                Ok(Ok(out)) => {
                    if out.rows_any() == vec![vec![Cell::Int(want)]] { Ok(()) } else { Err(format!("final count {:?}, expected {}", out.rows_any(), want)) }
                }
                Ok(Err(e)) => Err(format!("final count failed: {}", e.short())),
                Err(f) => Err(format!("final count: {}", f.short())),
            }
        }).unwrap());
    }
    for h in hs {
        match h.join() {
            Ok(Ok(())) => {}
            Ok(Err(m)) => return Err(Failure::mismatch(format!("{} [{}]", m, desc)).tag("final_canary").tag(if m.contains("did not return") { "hang" } else { "wrong" })),
            Err(_) => return Err(Failure::error("final canary thread panicked")),
        }
    }
    let dbh = Arc::try_unwrap(dbh_arc).map_err(|_| Failure::error("handle still shared"))?;
    dbh.flush().map_err(|f| Failure::from_fault(&f, &format!("final force_flush of [{}]", desc)).tag("final_flush"))?;
    canary(&dbh, &mut st, &format!("after the final flush of [{}]", desc))?;
    if nontrivial {
        env.nontrivial(&desc);
    }
    if case.on_disk {
        db::wait_flush_idle(dbh.instance, std::time::Duration::from_secs(20));
    }
    dbh.close().map_err(|f| Failure::from_fault(&f, "close"))?;
    Ok(())
}

pub fn shard(ctx: &mut Ctx) {
    let (n, max_len) = ctx.tier.pick((800, 14), (20000, 30));
    let n = ctx.share(n);
    ctx.drive("sequence", case_strategy(max_len), n, check);
}

pub fn replay(_sub: &str, case: &Value, env: &mut CaseEnv) -> Result<(), Failure> {
    let c: Case = serde_json::from_value(case.clone()).map_err(bad_case)?;
    check(&c, env)
}
