//! C17 — the HTTP interface behaves like the embedded one.

use std::collections::{BTreeMap, HashSet};
use std::sync::atomic::{AtomicU16, Ordering};
use std::time::Duration;

use locustdb_serialization::api::{Column, EncodingOpts, MultiQueryRequest, MultiQueryResponse, QueryRequest};
use proptest::collection::vec;
use proptest::prelude::*;
use serde::{Deserialize, Serialize};
use serde_json::{json, Value};

use crate::db::{self, Db, DbOpts, QOut, QRes};
use crate::hist::{self, Schema};
use crate::model::{Cell, FBits, Request, F64_NULL_BITS};
use crate::props::{bad_case, c11, Entry};
use crate::runner::{CaseEnv, Ctx, Failure};

pub fn entry() -> Entry {
    Entry {
        id: "C17",
        shard,
        replay,
        level: "exploration",
        rule: "one database served by server::run on a loopback port; generated histories of /insert_bin posts (serialised event buffers of 1-2 tables, values incl. NULL, ints beyond 2^53, +-inf, strings) interleaved with queries through /query, /query_cols and /multi_query_cols (JSON; binary with and without xor float compression, with a mantissa, and with a mantissa plus full_precision_cols naming every other output column), including failing queries; oracle = the same query through run_query on the same handle: same column names in order, same values (JSON numbers compared exactly as i64/f64; non-finite floats are null in JSON; NULL float cells are the reserved NaN in binary float columns), a failing query yields a 4xx/5xx status and the next request is answered; non-trivial = a response carrying a NULL, non-finite, > 2^53 or mixed-type cell, or an error response followed by a success; distinct = canonical history text",
        assumptions: &["only the data endpoints are exercised (the HTML endpoints need the templates directory relative to the working directory)", "binary responses carry columns in a map, so only the set of names is compared there", "with a reduced mantissa only sign, exponent and the leading mantissa bits are compared"],
        quick_budget_s: 1200,
        thorough_budget_s: 7200,
        required_classes: &["endpoint:query", "endpoint:query_cols", "endpoint:multi_json", "endpoint:multi_bin", "endpoint:multi_bin_xor", "endpoint:multi_bin_mantissa", "endpoint:multi_bin_mantissa_full_precision_cols", "query:failing", "query:valid", "cell:null", "cell:big_int", "cell:non_finite", "status:error_then_ok", "insert"],
        exhaustive_claim: false,
    }
}

#[derive(Clone, Debug, PartialEq, Serialize, Deserialize)]
pub enum Step {
    Insert(Request),
    /// (sql, endpoint 0..6, failing?)
    Query(String, u8, bool),
}

#[derive(Clone, Debug, Serialize, Deserialize)]
pub struct Case {
    pub steps: Vec<Step>,
}

fn schema() -> Schema {
    Schema { tables: vec!["t0".into(), "t1".into()], max_rows: 6, ..Schema::simple() }
}

fn valid_sql() -> Vec<&'static str> {
    vec![
        "SELECT * FROM t0",
        "SELECT * FROM t1",
        "SELECT a, b, c FROM t0",
        "SELECT a FROM t0 WHERE a IS NOT NULL",
        "SELECT b FROM t1",
        "SELECT c, count(1) FROM t0",
        "SELECT count(1), sum(a), max(a) FROM t0",
        "SELECT d, e FROM t0 LIMIT 3",
        "SELECT nosuch FROM t0",
        "SELECT name FROM _meta_tables",
        "SELECT a + 1 FROM t0",
    ]
}

fn case_strategy() -> BoxedStrategy<Case> {
    let fq: Vec<&'static str> = c11::failing_queries().into_iter().map(|x| x.0).filter(|q| !q.is_empty() && !q.contains(" t") || q.contains("FROM t")).collect();
    let step = prop_oneof![
        3 => hist::request(schema()).prop_map(Step::Insert),
        4 => (proptest::sample::select(valid_sql()), 0u8..7).prop_map(|(q, e)| Step::Query(q.to_string(), e, false)),
        2 => (proptest::sample::select(fq), 0u8..7).prop_map(|(q, e)| Step::Query(q.replace("FROM t", "FROM t0"), e, true)),
    ];
    (hist::request(schema()), vec(step, 1..12))
        .prop_map(|(first, mut steps)| {
            steps.insert(0, Step::Insert(first));
            Case { steps }
        })
        .boxed()
}

static NEXT_PORT: AtomicU16 = AtomicU16::new(0);

fn pick_port() -> u16 {
    let n = NEXT_PORT.fetch_add(1, Ordering::SeqCst) as u32;
    (20000 + (std::process::id().wrapping_mul(131).wrapping_add(n.wrapping_mul(17))) % 40000) as u16
}

fn json_cell(v: &Value) -> Cell {
    match v {
        Value::Null => Cell::Null,
        Value::Number(n) => {
            if let Some(i) = n.as_i64() {
                Cell::Int(i)
            } else if let Some(u) = n.as_u64() {
                Cell::Str(format!("<u64 {}>", u))
            } else {
                Cell::float(n.as_f64().unwrap_or(f64::NAN))
            }
        }
        Value::String(s) => Cell::Str(s.clone()),
        other => Cell::Str(format!("<json {}>", other)),
    }
}

/// What a JSON response can carry for an embedded cell.
fn json_expected(c: &Cell) -> Cell {
    match c {
        Cell::Float(f) if !f.get().is_finite() => Cell::Null,
        // serde_json prints integral floats as e.g. 1.0, which parses back as f64: unchanged
        c => c.clone(),
    }
}

fn cells_eq_json(exp: &Cell, got: &Cell) -> bool {
    match (exp, got) {
        (Cell::Float(a), Cell::Float(b)) => a.get() == b.get() || a == b,
        // a float with an integral value may be printed without fraction by some encoders
        (Cell::Float(a), Cell::Int(b)) => a.get() == *b as f64,
        _ => exp == got,
    }
}

fn embedded_columns(out: &QOut) -> Vec<(String, String, Vec<Cell>)> {
    // a float cell holding the engine's reserved NaN is a NULL (the binary protocol documents this mapping)
    out.columns
        .iter()
        .map(|(n, k, cells)| (n.clone(), k.clone(), cells.iter().map(|c| if *c == Cell::Float(FBits(F64_NULL_BITS)) { Cell::Null } else { c.clone() }).collect()))
        .collect()
}

struct Served {
    dbh: Db,
    base: String,
    rt: tokio::runtime::Runtime,
    client: reqwest::Client,
}

lazy_static::lazy_static! {
    /// One database + server per shard process: actix starts 16 workers (and their blocking pools) per
    /// server and does not release them promptly, so a server per case exhausts the thread limit.
    static ref SERVED: std::sync::Mutex<Option<Served>> = std::sync::Mutex::new(None);
    static ref CASE_NO: std::sync::atomic::AtomicU64 = std::sync::atomic::AtomicU64::new(0);
}

fn serve() -> Result<(), Failure> {
    let mut g = SERVED.lock().unwrap();
    if g.is_some() {
        return Ok(());
    }
    let opts = DbOpts { threads: 2, ..DbOpts::default() };
    let dbh = Db::open(&opts, None).map_err(|f| Failure::from_fault(&f, "open"))?;
    let rt = tokio::runtime::Builder::new_current_thread().enable_all().build().map_err(|e| Failure::error(e.to_string()))?;
    let _enter = rt.enter();
    let mut started = None;
    let mut last_err = String::new();
    for _ in 0..50 {
        let port = pick_port();
        match locustdb::server::run(dbh.raw().clone(), true, vec![], format!("127.0.0.1:{}", port)) {
            Ok((handle, rx)) => {
                started = Some((port, handle, rx));
                break;
            }
            Err(e) => {
                last_err = e.to_string();
                continue;
            }
        }
    }
    let (port, handle, rx) = started.ok_or_else(|| Failure::error(format!("could not bind a loopback port: {}", last_err)))?;
    std::mem::forget(handle);
    std::mem::forget(rx);
    let base = format!("http://127.0.0.1:{}", port);
    let client = reqwest::Client::builder().timeout(Duration::from_secs(45)).build().map_err(|e| Failure::error(e.to_string()))?;
    let mut up = false;
    for _ in 0..300 {
        if rt.block_on(async { client.get(format!("{}/hey", base)).send().await }).is_ok() {
            up = true;
            break;
        }
        std::thread::sleep(Duration::from_millis(10));
    }
    if !up {
        return Err(Failure::error("server did not come up"));
    }
    drop(_enter);
    *g = Some(Served { dbh, base, rt, client });
    Ok(())
}

/// A request that did not complete within the client's time limit is a time budget running out (the machine may be
/// loaded), not evidence about the server: it is classified like a busy hang, i.e. counted as inconclusive.
/// Any other transport error (connection reset because the handler died, ...) is a violation.
fn transport_failure(e: &reqwest::Error, text: String) -> Failure {
    let mut chain = String::new();
    let mut src: Option<&dyn std::error::Error> = std::error::Error::source(e);
    while let Some(s) = src {
        chain.push_str(&format!(" <- {}", s));
        src = s.source();
    }
    let mut f = Failure::mismatch(format!("{}{}", text, chain)).tag("transport");
    if e.is_timeout() {
        f.kind = "hang".into();
        f = f.tag("hang").tag("busy").tag("http_timeout");
    }
    f
}

pub fn check(case: &Case, env: &mut CaseEnv) -> Result<(), Failure> {
    serve()?;
    let guard = SERVED.lock().unwrap();
    let served = guard.as_ref().unwrap();
    let (dbh, base, rt, client) = (&served.dbh, &served.base, &served.rt, &served.client);
    // fresh tables for every case: the table names get a per-case suffix
    let case_no = CASE_NO.fetch_add(1, std::sync::atomic::Ordering::SeqCst);
    let suffix = format!("_{}", case_no);
    let rename = |sql: &str| sql.replace("t0", &format!("t0{}", suffix)).replace("t1", &format!("t1{}", suffix));
    let steps: Vec<Step> = case
        .steps
        .iter()
        .map(|s| match s {
            Step::Insert(r) => Step::Insert(Request { tables: r.tables.iter().map(|(t, b)| (format!("{}{}", t, suffix), b.clone())).collect() }),
            Step::Query(q, e, f) => Step::Query(rename(q), *e, *f),
        })
        .collect();
    let desc = case
        .steps
        .iter()
        .map(|s| match s { Step::Insert(r) => format!("insert({})", r.tables.keys().cloned().collect::<Vec<_>>().join(",")), Step::Query(q, e, _) => format!("q{}`{}`", e, q) })
        .collect::<Vec<_>>()
        .join(" ; ");
    env.sample(|| json!({"history": desc}));
    let mut nontrivial = false;
    let mut last_was_error = false;
    let fresh = reqwest::Client::builder().timeout(Duration::from_secs(45)).pool_max_idle_per_host(0).build().map_err(|e| Failure::error(e.to_string()))?;
    let result: Result<(), Failure> = (|| {
        for (si, step) in steps.iter().enumerate() {
            match step {
                Step::Insert(req) => {
                    env.class("insert");
                    let body = req.to_event_buffer().serialize();
                    // inserts are not idempotent, so they are never retried: they go over a connection of their own
                    // (no idle pooled connection that the server may have closed in the meantime)
                    let resp = rt
                        .block_on(async { fresh.post(format!("{}/insert_bin", base)).body(body).send().await })
                        .map_err(|e| transport_failure(&e, format!("step {}: /insert_bin transport error: {}", si, e)))?;
                    if !resp.status().is_success() {
                        return Err(Failure::mismatch(format!("step {}: /insert_bin answered {}", si, resp.status())).tag("insert_status"));
                    }
                    last_was_error = false;
                }
                Step::Query(sql, endpoint, _failing) => {
                    let ctx = format!("step {} `{}` of [{}]", si, sql, desc);
                    // embedded answer first (the oracle)
                    let emb_rows: QRes = dbh.query_full(sql, true).map_err(|f| Failure::from_fault(&f, &format!("embedded {}", ctx)))?;
                    let emb_cols: QRes = dbh.query_full(sql, false).map_err(|f| Failure::from_fault(&f, &format!("embedded {}", ctx)))?;
                    db::clear_panics();
                    env.class(if emb_rows.is_ok() { "query:valid" } else { "query:failing" });
                    let full_precision: HashSet<String> = match &emb_cols {
                        Ok(out) => out.colnames.iter().enumerate().filter(|(i, _)| i % 2 == 0).map(|(_, n)| n.clone()).collect(),
                        Err(_) => HashSet::new(),
                    };
                    let (label, builder) = match endpoint % 7 {
                        0 => ("endpoint:query", client.post(format!("{}/query", base)).json(&QueryRequest { query: sql.clone() })),
                        1 => ("endpoint:query_cols", client.post(format!("{}/query_cols", base)).json(&QueryRequest { query: sql.clone() })),
                        2 => ("endpoint:multi_json", client.post(format!("{}/multi_query_cols", base)).json(&MultiQueryRequest { queries: vec![sql.clone()], encoding_opts: None })),
                        3 => ("endpoint:multi_bin", client.post(format!("{}/multi_query_cols", base)).json(&MultiQueryRequest { queries: vec![sql.clone()], encoding_opts: Some(EncodingOpts { xor_float_compression: false, mantissa: None, full_precision_cols: HashSet::new() }) })),
                        4 => ("endpoint:multi_bin_xor", client.post(format!("{}/multi_query_cols", base)).json(&MultiQueryRequest { queries: vec![sql.clone()], encoding_opts: Some(EncodingOpts { xor_float_compression: true, mantissa: None, full_precision_cols: HashSet::new() }) })),
                        5 => ("endpoint:multi_bin_mantissa", client.post(format!("{}/multi_query_cols", base)).json(&MultiQueryRequest { queries: vec![sql.clone()], encoding_opts: Some(EncodingOpts { xor_float_compression: true, mantissa: Some(20), full_precision_cols: HashSet::new() }) })),
                        _ => ("endpoint:multi_bin_mantissa_full_precision_cols", client.post(format!("{}/multi_query_cols", base)).json(&MultiQueryRequest { queries: vec![sql.clone()], encoding_opts: Some(EncodingOpts { xor_float_compression: true, mantissa: Some(20), full_precision_cols: full_precision.clone() }) })),
                    };
                    // A pooled keep-alive connection may have been closed by the server while it was idle; hyper reports
                    // that as "connection closed before message completed" on reuse. Queries are idempotent: one retry
                    // on a new connection. A handler that really dies fails the retry as well and is reported.
                    let send = |b: reqwest::RequestBuilder| rt.block_on(async { b.send().await });
                    let first = send(builder.try_clone().expect("request body is in memory"));
                    let resp = match first {
                        Err(e) if !e.is_timeout() && (e.is_request() || e.is_connect()) => {
                            env.class("http:retry_after_closed_connection");
                            send(builder)
                        }
                        r => r,
                    };
                    env.class(label);
                    let resp = match resp {
                        Ok(r) => r,
                        Err(e) => {
                            let f = transport_failure(&e, format!("{} via {}: no HTTP response (transport error: {}); embedded outcome: {}", ctx, label, e, if emb_rows.is_ok() { "ok" } else { "error" })).tag(label);
                            if env.kf_absorb("C17", &f).is_some() {
                                last_was_error = false;
                                continue;
                            }
                            return Err(f);
                        }
                    };
                    let status = resp.status();
                    let bytes = rt.block_on(resp.bytes()).map_err(|e| transport_failure(&e, format!("{}: body: {}", ctx, e)))?;
                    match (&emb_rows, &emb_cols) {
                        (Err(_), _) | (_, Err(_)) => {
                            if !(status.is_client_error() || status.is_server_error()) {
                                return Err(Failure::mismatch(format!("{} via {}: the embedded call fails but the HTTP status is {}", ctx, label, status)).tag("status_ok_for_error"));
                            }
                            last_was_error = true;
                        }
                        (Ok(er), Ok(ec)) => {
                            if !status.is_success() {
                                return Err(Failure::mismatch(format!("{} via {}: the embedded call succeeds but the HTTP status is {}: {}", ctx, label, status, String::from_utf8_lossy(&bytes).chars().take(200).collect::<String>())).tag("status_error_for_ok"));
                            }
                            if last_was_error {
                                env.class("status:error_then_ok");
                                nontrivial = true;
                            }
                            last_was_error = false;
                            let cols = embedded_columns(ec);
                            for c in &cols {
                                for cell in &c.2 {
                                    match cell {
                                        Cell::Null => { env.class("cell:null"); nontrivial = true; }
                                        Cell::Int(i) if i.unsigned_abs() > (1u64 << 53) => { env.class("cell:big_int"); nontrivial = true; }
                                        Cell::Float(f) if !f.get().is_finite() => { env.class("cell:non_finite"); nontrivial = true; }
                                        _ => {}
                                    }
                                }
                                if c.1 == "mixed" {
                                    nontrivial = true;
                                }
                            }
                            match endpoint % 7 {
                                0 => {
                                    let v: Value = serde_json::from_slice(&bytes).map_err(|e| Failure::mismatch(format!("{}: /query body is not JSON: {}", ctx, e)).tag("body"))?;
                                    let names: Vec<String> = v["colnames"].as_array().map(|a| a.iter().map(|x| x.as_str().unwrap_or("").to_string()).collect()).unwrap_or_default();
                                    if names != er.colnames {
                                        return Err(Failure::mismatch(format!("{}: /query colnames {:?}, embedded {:?}", ctx, names, er.colnames)).tag("names"));
                                    }
                                    let rows: Vec<Vec<Cell>> = v["rows"].as_array().map(|a| a.iter().map(|r| r.as_array().map(|r| r.iter().map(json_cell).collect()).unwrap_or_default()).collect()).unwrap_or_default();
                                    let want: Vec<Vec<Cell>> = er.rows.clone().unwrap_or_default().iter().map(|r| r.iter().map(json_expected).collect()).collect();
                                    if rows.len() != want.len() || rows.iter().zip(want.iter()).any(|(a, b)| a.len() != b.len() || a.iter().zip(b.iter()).any(|(g, e)| !cells_eq_json(e, g))) {
                                        return Err(Failure::mismatch(format!("{}: /query rows {:?}, embedded {:?}", ctx, rows.iter().take(5).collect::<Vec<_>>(), want.iter().take(5).collect::<Vec<_>>())).tag("values"));
                                    }
                                }
                                1 | 2 => {
                                    let v: Value = serde_json::from_slice(&bytes).map_err(|e| Failure::mismatch(format!("{}: body is not JSON: {}", ctx, e)).tag("body"))?;
                                    let v = if endpoint % 7 == 2 { v.as_array().and_then(|a| a.first().cloned()).unwrap_or(Value::Null) } else { v };
                                    let names: Vec<String> = v["colnames"].as_array().map(|a| a.iter().map(|x| x.as_str().unwrap_or("").to_string()).collect()).unwrap_or_default();
                                    if names != ec.colnames {
                                        return Err(Failure::mismatch(format!("{} via {}: colnames {:?}, embedded {:?}", ctx, label, names, ec.colnames)).tag("names"));
                                    }
                                    for (name, kind, cells) in &cols {
                                        let got = &v["cols"][name];
                                        if kind == "null" {
                                            if got.as_u64() != Some(cells.len() as u64) {
                                                return Err(Failure::mismatch(format!("{} via {}: NULL column {:?} of {} rows is {} in the response", ctx, label, name, cells.len(), got)).tag("values"));
                                            }
                                            continue;
                                        }
                                        let got_cells: Vec<Cell> = got.as_array().map(|a| a.iter().map(json_cell).collect()).unwrap_or_default();
                                        let want: Vec<Cell> = cells.iter().map(json_expected).collect();
                                        if got_cells.len() != want.len() || got_cells.iter().zip(want.iter()).any(|(g, e)| !cells_eq_json(e, g)) {
                                            return Err(Failure::mismatch(format!("{} via {}: column {:?} is {:?}, embedded {:?}", ctx, label, name, got_cells.iter().take(8).collect::<Vec<_>>(), want.iter().take(8).collect::<Vec<_>>())).tag("values"));
                                        }
                                    }
                                }
                                e => {
                                    let decoded = MultiQueryResponse::deserialize(&bytes).map_err(|e| Failure::mismatch(format!("{} via {}: binary body does not decode: {}", ctx, label, e)).tag("body"))?;
                                    if decoded.responses.len() != 1 {
                                        return Err(Failure::mismatch(format!("{} via {}: {} responses for 1 query", ctx, label, decoded.responses.len())).tag("body"));
                                    }
                                    let got = &decoded.responses[0].columns;
                                    let mut want_names: Vec<&String> = cols.iter().map(|c| &c.0).collect();
                                    want_names.sort();
                                    want_names.dedup();
                                    let mut got_names: Vec<&String> = got.keys().collect();
                                    got_names.sort();
                                    if got_names != want_names {
                                        return Err(Failure::mismatch(format!("{} via {}: columns {:?}, embedded {:?}", ctx, label, got_names, want_names)).tag("names"));
                                    }
                                    for (name, _kind, cells) in &cols {
                                        // e == 5: every float column keeps 20 mantissa bits; e == 6: the columns named in
                                        // full_precision_cols are exact, the others keep 20 bits
                                        let reduced = e == 5 || (e == 6 && !full_precision.contains(name));
                                        let e = if reduced { 5 } else { 4 };
                                        let mask: u64 = if reduced { u64::MAX - ((1u64 << (52 - 20)) - 1) } else { u64::MAX };
                                        // with duplicate output names the map keeps one of them: skip
                                        if cols.iter().filter(|c| &c.0 == name).count() > 1 {
                                            continue;
                                        }
                                        let gc: Vec<Cell> = match &got[name] {
                                            Column::Int(v) => v.iter().map(|x| Cell::Int(*x)).collect(),
                                            Column::Float(v) => v.iter().map(|x| if x.to_bits() == F64_NULL_BITS { Cell::Null } else { Cell::float(*x) }).collect(),
                                            Column::String(v) => v.iter().map(|x| Cell::Str(x.clone())).collect(),
                                            Column::Null(n) => vec![Cell::Null; *n],
                                            Column::Mixed(v) => v.iter().map(|a| match a { locustdb_serialization::api::AnyVal::Int(i) => Cell::Int(*i), locustdb_serialization::api::AnyVal::Float(f) => Cell::float(*f), locustdb_serialization::api::AnyVal::Str(s) => Cell::Str(s.clone()), locustdb_serialization::api::AnyVal::Null => Cell::Null }).collect(),
                                            Column::Xor(b) => match locustdb_compression_utils::xor_float::double::decode(b) {
                                                Ok(v) => v.iter().map(|x| if (x.to_bits() & mask) == (F64_NULL_BITS & mask) && e != 5 || (e == 5 && x.to_bits() == F64_NULL_BITS) { Cell::Null } else { Cell::float(*x) }).collect(),
                                                Err(_) => return Err(Failure::mismatch(format!("{} via {}: xor column {:?} does not decode", ctx, label, name)).tag("body")),
                                            },
                                        };
                                        let ok = gc.len() == cells.len()
                                            && gc.iter().zip(cells.iter()).all(|(g, w)| match (g, w) {
                                                (Cell::Float(a), Cell::Float(b)) => (a.0 & mask) == (b.0 & mask),
                                                // reduced mantissa: a NULL marker may lose its low bits; the first value of a column is exact
                                                (Cell::Float(a), Cell::Null) if e == 5 => (a.0 & mask) == (F64_NULL_BITS & mask),
                                                _ => g == w,
                                            });
                                        if !ok {
                                            return Err(Failure::mismatch(format!("{} via {}: column {:?} decodes to {:?}, embedded {:?}", ctx, label, name, gc.iter().take(8).collect::<Vec<_>>(), cells.iter().take(8).collect::<Vec<_>>())).tag("values"));
                                        }
                                    }
                                }
                            }
                        }
                    }
                }
            }
        }
        // the server must still answer
        let resp = rt.block_on(async { client.post(format!("{}/query_cols", base)).json(&QueryRequest { query: "SELECT name FROM _meta_tables".into() }).send().await });
        match resp {
            Ok(r) if r.status().is_success() => Ok(()),
            Ok(r) => Err(Failure::mismatch(format!("final request answered {} after [{}]", r.status(), desc)).tag("final")),
            Err(e) => Err(transport_failure(&e, format!("final request failed: {} after [{}]", e, desc)).tag("final")),
        }
    })();
    db::clear_panics();
    result?;
    if nontrivial {
        env.nontrivial(&desc);
    }
    Ok(())
}

pub fn shard(ctx: &mut Ctx) {
    let n = ctx.tier.pick(3000, 60000);
    let n = ctx.share(n);
    ctx.drive("http", case_strategy(), n, check);
}

pub fn replay(_sub: &str, case: &Value, env: &mut CaseEnv) -> Result<(), Failure> {
    let c: Case = serde_json::from_value(case.clone()).map_err(bad_case)?;
    check(&c, env)
}
