//! C08 — acknowledged data survives a clean restart, exactly once.

use proptest::prelude::*;
use serde::{Deserialize, Serialize};
use serde_json::{json, Value};

use crate::db::{self, DbOpts};
use crate::gen;
use crate::hist::{self, History, Op, OpWeights, Run, Schema};
use crate::props::{bad_case, Entry};
use crate::runner::{CaseEnv, Ctx, Failure};

pub fn entry() -> Entry {
    Entry {
        id: "C08",
        shard,
        replay,
        level: "exploration",
        rule: "generated histories (<= 15 steps) over ingest(batch into any subset of 1-3 tables) / force_flush / restart with max_wal_files in {1,2,1000}, max_wal_size_bytes in {1,300,64M} (so background flushes fire and ingestion may have to wait), io_threads in {1,4}; after every restart and at the end the table list, every table's column list and all rows (in order) are compared with the model of acknowledged requests; non-trivial = the history has a restart with unflushed acknowledged data and a restart after a flush; distinct = canonical history text",
        assumptions: &[
            "clean restart = drop the handle, wait until the old instance's flush thread has exited, reopen (an in-process reopen could otherwise overlap with a background flush of the old instance, which a real process exit cannot)",
            "the wall-clock timestamp column of _meta_tables is not compared",
        ],
        quick_budget_s: 1200,
        thorough_budget_s: 7200,
        required_classes: &["op:ingest", "op:flush", "op:restart", "wal_files:1", "wal_files:2", "wal_files:1000", "wal_bytes:1", "wal_bytes:300", "io:1", "io:4", "restart:with_unflushed", "restart:after_flush", "background_flush:observed"],
        exhaustive_claim: false,
    }
}

#[derive(Clone, Debug, Serialize, Deserialize)]
pub struct Case {
    pub history: History,
}

fn opts() -> BoxedStrategy<DbOpts> {
    (
        gen::db_opts(),
        prop_oneof![1 => Just(1usize), 1 => Just(2), 2 => Just(1000)],
        prop_oneof![1 => Just(1u64), 2 => Just(300), 4 => Just(64 * 1024 * 1024)],
    )
        .prop_map(|(o, wal_files, wal_bytes)| DbOpts { max_wal_files: wal_files, max_wal_size_bytes: wal_bytes, threads: o.threads.max(2), ..o })
        .boxed()
}

fn schema() -> Schema {
    Schema { tables: vec!["t0".into(), "t1".into(), "t2".into()], max_rows: 6, ..Schema::simple() }
}

fn case_strategy(max_ops: usize) -> BoxedStrategy<Case> {
    opts()
        .prop_flat_map(move |o| {
            // ingestion that has to wait for the 1 s background poll is slow: keep those histories shorter
            let len = if o.max_wal_size_bytes == 1 { 1..max_ops.min(7) } else { 1..max_ops };
            (Just(o), hist::ops(schema(), OpWeights { ingest: 6, flush: 2, evict: 0, restart: 3 }, len))
        })
        .prop_map(|(opts, ops)| Case { history: History { opts, ops } })
        .boxed()
}

pub fn check(case: &Case, env: &mut CaseEnv) -> Result<(), Failure> {
    let h = &case.history;
    env.class(&format!("wal_files:{}", h.opts.max_wal_files));
    env.class(&format!("wal_bytes:{}", h.opts.max_wal_size_bytes));
    env.class(&format!("io:{}", h.opts.io_threads));
    env.class(&format!("pcf:{}", h.opts.partition_combine_factor));
    env.sample(|| json!({"history": h.describe()}));
    let dir = db::temp_dir("c08");
    let mut run = Run::start(&h.opts, dir.path())?;
    let mut unflushed = false; // acknowledged data not yet covered by a force_flush
    let mut restart_unflushed = false;
    let mut restart_flushed = false;
    let mut forced = 0u64;
    for (i, op) in h.ops.iter().enumerate() {
        env.class(&format!("op:{}", op.kind()));
        if matches!(op, Op::Restart) {
            // no flush of the old instance may be in flight when it is closed
            db::wait_flush_idle(run.db().instance, std::time::Duration::from_secs(20));
            let flushes = db::sync_seen(run.db().instance, "flush.begin");
            if flushes > forced {
                env.class("background_flush:observed");
            }
            if unflushed {
                restart_unflushed = true;
                env.class("restart:with_unflushed");
            } else if !run.model.tables.is_empty() {
                restart_flushed = true;
                env.class("restart:after_flush");
            }
            forced = 0;
        }
        run.apply(i, op)?;
        match op {
            Op::Ingest(_) => unflushed = true,
            Op::Flush => {
                unflushed = false;
                forced += 1;
            }
            _ => {}
        }
        let stage = format!("after step {} ({}) of [{}]", i, op.kind(), h.describe());
        if matches!(op, Op::Restart) || i + 1 == h.ops.len() {
            db::wait_flush_idle(run.db().instance, std::time::Duration::from_secs(20));
            hist::check_catalogue(run.db(), &run.model, &stage)?;
            hist::check_content(run.db(), &run.model, &stage)?;
        }
        if let Some(p) = db::db_panics().first() {
            return Err(Failure::db_panic(p, &stage));
        }
    }
    // one final restart: everything acknowledged must still be there
    let stage = format!("after the final restart of [{}]", h.describe());
    db::wait_flush_idle(run.db().instance, std::time::Duration::from_secs(20));
    run.apply(h.ops.len(), &Op::Restart)?;
    hist::check_catalogue(run.db(), &run.model, &stage)?;
    hist::check_content(run.db(), &run.model, &stage)?;
    if restart_unflushed && restart_flushed {
        env.nontrivial(&h.describe());
    }
    db::wait_flush_idle(run.db().instance, std::time::Duration::from_secs(20));
    run.finish()
}

pub fn shard(ctx: &mut Ctx) {
    let (n, max_ops) = ctx.tier.pick((600, 15), (15000, 15));
    let n = ctx.share(n);
    ctx.drive("history", case_strategy(max_ops), n, check);
}

pub fn replay(_sub: &str, case: &Value, env: &mut CaseEnv) -> Result<(), Failure> {
    let c: Case = serde_json::from_value(case.clone()).map_err(bad_case)?;
    check(&c, env)
}
