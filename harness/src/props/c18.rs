//! C18 — a finished flush leaves no garbage and unblocks ingestion.

use std::collections::BTreeSet;

use locustdb::verif::internals::{verif_partition_filename, verif_sanitize_table_name};
use proptest::prelude::*;
use serde::{Deserialize, Serialize};
use serde_json::{json, Value};

use crate::db::{self, DbOpts};
use crate::gen;
use crate::hist::{self, History, Op, OpWeights, Run, Schema};
use crate::props::{bad_case, Entry};
use crate::runner::{CaseEnv, Ctx, Failure};

pub fn entry() -> Entry {
    Entry {
        id: "C18",
        shard,
        replay,
        level: "exploration",
        rule: "generated histories over ingest / force_flush (any combine factor, sub-partition size, io_threads, wal_flush_compaction_threads) and a second family with max_wal_size_bytes tiny so that ingestion has to wait for the background flush; after every force_flush (nothing else running) the recursive directory listing must equal {meta} + the partition files the catalogue refers to (no wal/*, no *INCOMPLETE, no file of a merged-away partition), the accounted WAL size must be 0 and the unflushed WAL id range empty; every ingestion must return within the deadline; non-trivial = >= 2 flushes of which one compacted, or an ingestion that had to wait; distinct = canonical history text",
        assumptions: &["the catalogue is read through the verif_catalogue accessor (hook H4)", "file names are derived with the crate's own sanitize_table_name / partition_filename (re-exported by hook H3)"],
        quick_budget_s: 1200,
        thorough_budget_s: 7200,
        required_classes: &["op:ingest", "op:flush", "compaction:happened", "family:blocking", "family:plain", "ingest:waited", "io:1", "io:4", "wfc:1", "wfc:4", "mps:1", "mps:64"],
        exhaustive_claim: false,
    }
}

#[derive(Clone, Debug, Serialize, Deserialize)]
pub struct Case {
    pub history: History,
}

fn case_strategy(max_ops: usize) -> BoxedStrategy<Case> {
    (gen::db_opts(), prop_oneof![3 => Just(64u64 * 1024 * 1024), 1 => Just(1u64), 1 => Just(200u64)], prop_oneof![Just(0u64), Just(1), Just(4), Just(999)])
        .prop_flat_map(move |(o, wal_bytes, pcf)| {
            let o = DbOpts { max_wal_size_bytes: wal_bytes, partition_combine_factor: pcf, threads: o.threads.max(2), ..o };
            let len = if wal_bytes < 1000 { 2..max_ops.min(7) } else { 2..max_ops };
            (Just(o), hist::ops(Schema::simple(), OpWeights { ingest: 5, flush: 4, evict: 0, restart: 1 }, len))
        })
        .prop_map(|(opts, ops)| Case { history: History { opts, ops } })
        .boxed()
}

fn expected_files(run: &Run) -> BTreeSet<String> {
    let mut want = BTreeSet::new();
    want.insert("meta".to_string());
    for (table, id, _off, _len, subs) in run.db().raw().verif_inner().verif_catalogue() {
        for (key, _last) in subs {
            want.insert(format!("tables/{}/{}", verif_sanitize_table_name(&table), verif_partition_filename(id, &key)));
        }
    }
    want
}

pub fn check(case: &Case, env: &mut CaseEnv) -> Result<(), Failure> {
    let h = &case.history;
    let blocking = h.opts.max_wal_size_bytes < 1000;
    env.class(if blocking { "family:blocking" } else { "family:plain" });
    env.class(&format!("io:{}", h.opts.io_threads));
    env.class(&format!("wfc:{}", h.opts.wal_flush_compaction_threads));
    env.class(&format!("mps:{}", h.opts.max_partition_size_bytes));
    env.class(&format!("pcf:{}", h.opts.partition_combine_factor));
    env.sample(|| json!({"history": h.describe()}));
    let dir = db::temp_dir("c18");
    db::sync_log_enable(true);
    let mut run = Run::start(&h.opts, dir.path())?;
    let mut flushes = 0;
    let mut compacted = false;
    let mut waited = false;
    let mut max_files = 0usize;
    for (i, op) in h.ops.iter().enumerate() {
        env.class(&format!("op:{}", op.kind()));
        let blocked_before = db::sync_seen(run.db().instance, "ingest.wal_blocked");
        let log_before = db::sync_log().len();
        if matches!(op, Op::Restart) {
            db::wait_flush_idle(run.db().instance, std::time::Duration::from_secs(20));
        }
        run.apply(i, op)?;
        let stage = format!("after step {} ({}) of [{}]", i, op.kind(), h.describe());
        if matches!(op, Op::Ingest(_)) && db::sync_seen(run.db().instance, "ingest.wal_blocked") > blocked_before {
            waited = true;
            env.class("ingest:waited");
        }
        if matches!(op, Op::Flush) {
            flushes += 1;
            // nothing else running: wait out a background flush that may have been triggered as well
            db::wait_flush_idle(run.db().instance, std::time::Duration::from_secs(20));
            let log = db::sync_log();
            if log[log_before.min(log.len())..].iter().any(|e| e.1 == "compact.begin") {
                compacted = true;
                env.class("compaction:happened");
            }
            let inner = run.db().raw().verif_inner().clone();
            // a background flush may start between the wait and the listing: retry a few times before judging
            let mut verdict = Ok(());
            for _attempt in 0..5 {
                db::wait_flush_idle(run.db().instance, std::time::Duration::from_secs(20));
                let before = db::sync_seen(run.db().instance, "flush.begin");
                let listing: BTreeSet<String> = db::list_dir(dir.path()).into_iter().map(|x| x.0).collect();
                let want = expected_files(&run);
                let wal = inner.verif_wal_size();
                let ids = inner.verif_unflushed_wal_ids();
                if db::sync_seen(run.db().instance, "flush.begin") != before {
                    continue; // a flush interleaved with the observation
                }
                max_files = max_files.max(listing.len());
                verdict = if listing != want {
                    let extra: Vec<&String> = listing.difference(&want).collect();
                    let missing: Vec<&String> = want.difference(&listing).collect();
                    Err(Failure::mismatch(format!("{}: directory differs from the catalogue: unexpected files {:?}, missing files {:?}", stage, extra, missing))
                        .tag(if !extra.is_empty() { "garbage" } else { "missing_file" }))
                } else if wal != 0 && !blocking {
                    Err(Failure::mismatch(format!("{}: accounted WAL size is {} after a completed flush", stage, wal)).tag("wal_size"))
                } else if ids.start != ids.end && !blocking {
                    Err(Failure::mismatch(format!("{}: unflushed WAL ids {:?} after a completed flush", stage, ids)).tag("wal_ids"))
                } else {
                    Ok(())
                };
                break;
            }
            verdict?;
        }
        if let Some(p) = db::db_panics().first() {
            return Err(Failure::db_panic(p, &stage));
        }
    }
    db::sync_log_enable(false);
    if (flushes >= 2 && compacted) || waited {
        env.nontrivial(&h.describe());
    }
    db::wait_flush_idle(run.db().instance, std::time::Duration::from_secs(20));
    run.finish()
}

pub fn shard(ctx: &mut Ctx) {
    let (n, max_ops) = ctx.tier.pick((800, 12), (20000, 40));
    let n = ctx.share(n);
    ctx.drive("history", case_strategy(max_ops), n, check);
}

pub fn replay(_sub: &str, case: &Value, env: &mut CaseEnv) -> Result<(), Failure> {
    let c: Case = serde_json::from_value(case.clone()).map_err(bad_case)?;
    check(&c, env)
}
