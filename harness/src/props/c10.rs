//! C10 — a concurrent query sees a clean prefix of every table.

use std::collections::{BTreeMap, BTreeSet};
use std::sync::atomic::{AtomicBool, AtomicI64, Ordering};
use std::sync::{Arc, Mutex};
use std::time::Duration;

use proptest::collection::vec;
use proptest::prelude::*;
use serde::{Deserialize, Serialize};
use serde_json::{json, Value};

use crate::db::{self, Db, DbOpts, QOut};
use crate::model::{Batch, Cell, ColRep, Request};
use crate::props::{bad_case, Entry};
use crate::runner::{CaseEnv, Ctx, Failure};

pub fn entry() -> Entry {
    Entry {
        id: "C10",
        shard,
        replay,
        level: "exploration",
        rule: "(a) placed schedules: a generated workload (1-4 flushed batches, 1-3 acknowledged unflushed batches, rows tagged (batch, idx), a column present only in some batches) and then a force_flush on a helper thread that hook H2 parks at one of its lock-free step boundaries (after freeze; after Table::batch per table; after batching; after the partition files are written and registered; at compaction start, after the in-memory compaction swap, after the catalogue swap; after compaction; after the catalogue is persisted; after old files / WAL segments are deleted). At the parked point five query kinds (existing columns, absent column, partly absent column, SELECT *, per-batch counts) run, optionally after a second ingestion, then the flush is released and the queries run again. All labels x all query kinds are enumerated per workload. (b) stress: 2 ingesting threads, a flusher, an evictor and 2 query threads for a fixed number of operations. Oracle: every result has no duplicate (batch, idx), every batch entirely or not at all, every batch acknowledged before the query started; no query fails, no database thread panics. Non-trivial = the query overlapped a flush that created or compacted a partition of the queried table; distinct = (label, query kind, workload shape)",
        assumptions: &["the schedule is owned only at the named step boundaries; interleavings inside a step are sampled by the stress part", "a parked query that only completes after the flush is released sits under a lock the query needs: inconclusive, not a violation"],
        quick_budget_s: 1500,
        thorough_budget_s: 7200,
        required_classes: &["label:flush.after_freeze", "label:flush_table.after_batch", "label:flush.after_batching", "label:flush.after_persist_partitions", "label:compact.begin", "label:compact.after_table_compact", "label:compact.after_prepare_compact", "label:flush.after_compaction", "label:flush.after_persist_metastore", "label:flush.after_delete_orphans", "label:flush.after_delete_wal", "query:existing", "query:absent", "query:partly_absent", "query:star", "query:count", "second_ingest", "stress"],
        exhaustive_claim: false,
    }
}

pub const LABELS: [&str; 11] = [
    "flush.after_freeze",
    "flush_table.after_batch",
    "flush.after_batching",
    "flush.after_persist_partitions",
    "compact.begin",
    "compact.after_table_compact",
    "compact.after_prepare_compact",
    "flush.after_compaction",
    "flush.after_persist_metastore",
    "flush.after_delete_orphans",
    "flush.after_delete_wal",
];

#[derive(Clone, Debug, Serialize, Deserialize)]
pub enum Case {
    Placed { flushed: Vec<u8>, unflushed: Vec<u8>, pcf: u64, mps: u64, second_ingest: bool, opt_mask: u16 },
    Stress { pcf: u64, ops: u16, workers: usize, #[serde(default)] evictor: bool },
}

fn case_strategy() -> BoxedStrategy<Case> {
    prop_oneof![
        4 => (vec(1u8..5, 1..4), vec(1u8..5, 1..3), prop_oneof![Just(0u64), Just(1), Just(999)], prop_oneof![Just(1u64), Just(8 * 1024 * 1024)], any::<bool>(), any::<u16>())
            .prop_map(|(flushed, unflushed, pcf, mps, second_ingest, opt_mask)| Case::Placed { flushed, unflushed, pcf, mps, second_ingest, opt_mask }),
        1 => (prop_oneof![Just(0u64), Just(1), Just(4)], 20u16..60, prop_oneof![Just(2usize), Just(4)], any::<bool>()).prop_map(|(pcf, ops, workers, evictor)| Case::Stress { pcf, ops, workers, evictor }),
    ]
    .boxed()
}

fn batch(b: i64, rows: usize, with_opt: bool) -> Batch {
    let mut cols = BTreeMap::new();
    cols.insert("b".to_string(), ColRep::I64(vec![b; rows]));
    cols.insert("i".to_string(), ColRep::I64((0..rows as i64).collect()));
    cols.insert("v".to_string(), ColRep::Str((0..rows).map(|i| format!("v{}_{}", b, i)).collect()));
    if with_opt {
        cols.insert("opt".to_string(), ColRep::I64((0..rows as i64).map(|i| b * 100 + i).collect()));
    }
    Batch { rows, cols }
}

pub const QUERIES: [(&str, &str); 5] = [
    ("query:existing", "SELECT b, i FROM t"),
    ("query:absent", "SELECT b, i, nosuch FROM t"),
    ("query:partly_absent", "SELECT b, i, opt FROM t"),
    ("query:star", "SELECT * FROM t"),
    ("query:count", "SELECT b, count(1) FROM t"),
];

/// Prefix consistency of one answer. `sizes`: batch -> row count; `must`: batches acknowledged before the
/// query started; `opt`: batches that carry the optional column.
fn judge(kind: &str, out: &QOut, sizes: &BTreeMap<i64, usize>, must: &BTreeSet<i64>, opt: &BTreeSet<i64>) -> Result<(), String> {
    let rows = out.rows_any();
    let col = |name: &str| out.colnames.iter().position(|c| c == name);
    let bi = col("b").ok_or_else(|| format!("no column b in {:?}", out.colnames))?;
    let mut seen: BTreeMap<i64, BTreeSet<i64>> = BTreeMap::new();
    if kind == "query:count" {
        let ci = out.colnames.iter().position(|c| c.starts_with("count")).ok_or("no count column")?;
        for r in &rows {
            let (b, c) = match (&r[bi], &r[ci]) {
                (Cell::Int(b), Cell::Int(c)) => (*b, *c),
                x => return Err(format!("unexpected cells {:?}", x)),
            };
            if seen.insert(b, BTreeSet::new()).is_some() {
                return Err(format!("batch {} appears in two groups", b));
            }
            match sizes.get(&b) {
                Some(n) if *n as i64 == c => {}
                Some(n) => return Err(format!("batch {} has {} of its {} rows (a request must be visible entirely or not at all)", b, c, n)),
                None => return Err(format!("unknown batch {}", b)),
            }
        }
    } else {
        let ii = col("i").ok_or("no column i")?;
        for r in &rows {
            let (b, i) = match (&r[bi], &r[ii]) {
                (Cell::Int(b), Cell::Int(i)) => (*b, *i),
                x => return Err(format!("unexpected cells {:?}", x)),
            };
            if !seen.entry(b).or_default().insert(i) {
                return Err(format!("row (batch {}, idx {}) is present twice", b, i));
            }
            if let Some(oi) = col("opt") {
                let want = if opt.contains(&b) { Cell::Int(b * 100 + i) } else { Cell::Null };
                if r[oi] != want {
                    return Err(format!("row (batch {}, idx {}): opt = {}, expected {}", b, i, r[oi].short(), want.short()));
                }
            }
            if let Some(ni) = col("nosuch") {
                if r[ni] != Cell::Null {
                    return Err(format!("absent column reads {}", r[ni].short()));
                }
            }
            if let Some(vi) = col("v") {
                if r[vi] != Cell::Str(format!("v{}_{}", b, i)) {
                    return Err(format!("row (batch {}, idx {}): v = {}", b, i, r[vi].short()));
                }
            }
        }
        for (b, idxs) in &seen {
            match sizes.get(b) {
                Some(n) if idxs.len() == *n => {}
                Some(n) => return Err(format!("batch {} has {} of its {} rows (a request must be visible entirely or not at all)", b, idxs.len(), n)),
                None => return Err(format!("unknown batch {}", b)),
            }
        }
    }
    for b in must {
        if !seen.contains_key(b) {
            return Err(format!("batch {} was acknowledged before the query started but is missing", b));
        }
    }
    Ok(())
}

struct World {
    sizes: BTreeMap<i64, usize>,
    acked: BTreeSet<i64>,
    opt: BTreeSet<i64>,
}

fn run_queries(dbh: &Db, w: &World, stage: &str, env: &mut CaseEnv, short_deadline: bool) -> Result<bool, Failure> {
    // returns false if a query only completed after the caller has to release the flush (handled by caller)
    for (kind, sql) in QUERIES.iter() {
        env.class(kind);
        if short_deadline {
            db::set_call_deadline(Duration::from_secs(4));
        }
        let res = dbh.query(sql);
        db::set_call_deadline(Duration::from_secs(20));
        let res = match res {
            Ok(r) => r,
            Err(db::Fault::Hang { db_panics, .. }) if db_panics.is_empty() && short_deadline => return Ok(false),
            Err(f) => return Err(Failure::from_fault(&f, &format!("{}: `{}`", stage, sql))),
        };
        match res {
            Ok(out) => {
                if let Err(m) = judge(kind, &out, &w.sizes, &w.acked, &w.opt) {
                    return Err(Failure::mismatch(format!("{}: `{}`: {}", stage, sql, m)).tag("prefix_consistency").tag(kind.to_string()));
                }
            }
            Err(e) => {
                std::thread::sleep(Duration::from_millis(30));
                if let Some(p) = db::db_panics().first() {
                    return Err(Failure::db_panic(p, &format!("{}: `{}` failed: {}", stage, sql, e.short())).tag(kind.to_string()));
                }
                return Err(Failure::mismatch(format!("{}: `{}` failed: {}", stage, sql, e.short())).tag("query_failed").tag(kind.to_string()));
            }
        }
        if let Some(p) = db::db_panics().first() {
            return Err(Failure::db_panic(p, &format!("{}: `{}`", stage, sql)).tag(kind.to_string()));
        }
    }
    Ok(true)
}

fn placed(flushed: &[u8], unflushed: &[u8], pcf: u64, mps: u64, second_ingest: bool, opt_mask: u16, env: &mut CaseEnv) -> Result<(), Failure> {
    let opts = DbOpts { threads: 2, partition_combine_factor: pcf, max_partition_size_bytes: mps, ..DbOpts::default() };
    let shape = format!("flushed={:?} unflushed={:?} pcf={} mps={} second={} opt={:b}", flushed, unflushed, pcf, mps, second_ingest, opt_mask);
    env.sample(|| json!({"placed": shape}));
    for label in LABELS.iter() {
        let dir = db::temp_dir("c10");
        let dbh = Arc::new(Db::open(&opts, Some(dir.path())).map_err(|f| Failure::from_fault(&f, "open"))?);
        let mut w = World { sizes: BTreeMap::new(), acked: BTreeSet::new(), opt: BTreeSet::new() };
        let mut next_b = 0i64;
        let mut ingest = |dbh: &Db, w: &mut World, rows: u8| -> Result<(), Failure> {
            let b = next_b;
            next_b += 1;
            let with_opt = (opt_mask >> (b % 16)) & 1 == 1;
            w.sizes.insert(b, rows as usize);
            if with_opt {
                w.opt.insert(b);
            }
            dbh.ingest(Request::single("t", batch(b, rows as usize, with_opt)).to_event_buffer()).map_err(|f| Failure::from_fault(&f, "ingest"))?;
            w.acked.insert(b);
            Ok(())
        };
        for r in flushed {
            ingest(&dbh, &mut w, *r)?;
            dbh.flush().map_err(|f| Failure::from_fault(&f, "force_flush"))?;
        }
        for r in unflushed {
            ingest(&dbh, &mut w, *r)?;
        }
        // park the flush at `label`
        db::sync_park_at(dbh.instance, label, 0);
        let d2 = dbh.clone();
        let flusher = std::thread::Builder::new().name("vh-flusher".into()).spawn(move || d2.flush()).unwrap();
        let parked = db::sync_wait_parked(dbh.instance, label, Duration::from_millis(1500));
        let stage = format!("flush parked at {} [{}]", label, shape);
        let mut conclusive = true;
        if parked {
            env.class(&format!("label:{}", label));
            conclusive = run_queries(&dbh, &w, &stage, env, true)?;
            if conclusive && second_ingest {
                env.class("second_ingest");
                // ingestion may legitimately have to wait for the flush at some labels: short deadline, then release
                db::set_call_deadline(Duration::from_secs(3));
                let b = next_b;
                let r = {
                    let with_opt = (opt_mask >> (b % 16)) & 1 == 1;
                    w.sizes.insert(b, 2);
                    if with_opt {
                        w.opt.insert(b);
                    }
                    dbh.ingest(Request::single("t", batch(b, 2, with_opt)).to_event_buffer())
                };
                db::set_call_deadline(Duration::from_secs(20));
                match r {
                    Ok(()) => {
                        w.acked.insert(b);
                        conclusive = run_queries(&dbh, &w, &format!("{} after a second ingestion", stage), env, true)?;
                    }
                    Err(db::Fault::Hang { db_panics, .. }) if db_panics.is_empty() => {
                        // the ingest thread is still waiting; it will complete after the release. It may become
                        // visible at any time from now on, entirely or not at all.
                        conclusive = false;
                    }
                    Err(f) => return Err(Failure::from_fault(&f, &format!("{}: second ingestion", stage))),
                }
            }
        }
        db::sync_release_all();
        match flusher.join() {
            Ok(Ok(())) => {}
            Ok(Err(f)) => return Err(Failure::from_fault(&f, &format!("force_flush (parked at {}) [{}]", label, shape))),
            Err(_) => return Err(Failure::error("flusher thread panicked")),
        }
        env.add_evaluations(1);
        if !conclusive {
            env.inconclusive();
            env.class(&format!("inconclusive:{}", label));
            // give a late second ingestion time to finish before the final check
            std::thread::sleep(Duration::from_millis(300));
            if let Some(b) = w.sizes.keys().next_back().cloned() {
                if !w.acked.contains(&b) {
                    w.sizes.remove(&b);
                    w.opt.remove(&b);
                    // its rows may or may not be there: drop the instance without the final exact check
                    let d = Arc::try_unwrap(dbh).map_err(|_| Failure::error("handle still shared"))?;
                    d.abandon();
                    continue;
                }
            }
        }
        run_queries(&dbh, &w, &format!("after the flush that was parked at {} [{}]", label, shape), env, false)?;
        if parked && conclusive {
            env.nontrivial(&format!("{}|{}", label, shape));
        }
        let d = Arc::try_unwrap(dbh).map_err(|_| Failure::error("handle still shared"))?;
        d.close().map_err(|f| Failure::from_fault(&f, "close"))?;
    }
    Ok(())
}

fn stress(pcf: u64, ops: u16, workers: usize, evictor: bool, env: &mut CaseEnv) -> Result<(), Failure> {
    env.class("stress");
    env.class(if evictor { "stress:with_evictor" } else { "stress:no_evictor" });
    // several client threads per shard and 16 shards compete for the cores: a call gets more time here than in the
    // placed schedules before it is given up as inconclusive
    db::set_call_deadline(Duration::from_secs(60));
    let opts = DbOpts { threads: workers, partition_combine_factor: pcf, ..DbOpts::default() };
    let dir = db::temp_dir("c10s");
    let dbh = Arc::new(Db::open(&opts, Some(dir.path())).map_err(|f| Failure::from_fault(&f, "open"))?);
    let sizes: Arc<Mutex<BTreeMap<i64, usize>>> = Arc::new(Mutex::new(BTreeMap::new()));
    let acked: Arc<Mutex<BTreeSet<i64>>> = Arc::new(Mutex::new(BTreeSet::new()));
    let opt: Arc<Mutex<BTreeSet<i64>>> = Arc::new(Mutex::new(BTreeSet::new()));
    let next_b = Arc::new(AtomicI64::new(0));
    let stop = Arc::new(AtomicBool::new(false));
    let failure: Arc<Mutex<Option<Failure>>> = Arc::new(Mutex::new(None));
    // the table exists before the query threads start
    {
        let b = next_b.fetch_add(1, Ordering::SeqCst);
        sizes.lock().unwrap().insert(b, 2);
        dbh.ingest(Request::single("t", batch(b, 2, false)).to_event_buffer()).map_err(|f| Failure::from_fault(&f, "stress: first ingest"))?;
        acked.lock().unwrap().insert(b);
    }
    let mut handles = vec![];
    for wi in 0..2 {
        let (d, sizes, acked, opt, next_b, failure) = (dbh.clone(), sizes.clone(), acked.clone(), opt.clone(), next_b.clone(), failure.clone());
        let n = ops / 2;
        handles.push(std::thread::Builder::new().name(format!("vh-writer-{}", wi)).spawn(move || {
            for k in 0..n {
                let b = next_b.fetch_add(1, Ordering::SeqCst);
                let rows = 1 + ((b as usize * 7 + k as usize) % 4);
                let with_opt = b % 3 == 0;
                sizes.lock().unwrap().insert(b, rows);
                if with_opt {
                    opt.lock().unwrap().insert(b);
                }
                match d.ingest(Request::single("t", batch(b, rows, with_opt)).to_event_buffer()) {
                    Ok(()) => {
                        acked.lock().unwrap().insert(b);
                    }
                    Err(f) => {
                        failure.lock().unwrap().get_or_insert(Failure::from_fault(&f, "stress: ingest"));
                        return;
                    }
                }
            }
        }).unwrap());
    }
    {
        let (d, stop, failure) = (dbh.clone(), stop.clone(), failure.clone());
        handles.push(std::thread::Builder::new().name("vh-flusher".into()).spawn(move || {
            while !stop.load(Ordering::SeqCst) {
                if let Err(f) = d.flush() {
                    failure.lock().unwrap().get_or_insert(Failure::from_fault(&f, "stress: force_flush"));
                    return;
                }
                std::thread::sleep(Duration::from_millis(2));
            }
        }).unwrap());
    }
    if evictor {
        let (d, stop) = (dbh.clone(), stop.clone());
        handles.push(std::thread::Builder::new().name("vh-evictor".into()).spawn(move || {
            while !stop.load(Ordering::SeqCst) {
                let _ = d.evict();
                std::thread::sleep(Duration::from_millis(3));
            }
        }).unwrap());
    }
    let mut qhandles = vec![];
    for qi in 0..2 {
        let (d, sizes, acked, opt, stop, failure) = (dbh.clone(), sizes.clone(), acked.clone(), opt.clone(), stop.clone(), failure.clone());
        qhandles.push(std::thread::Builder::new().name(format!("vh-query-{}", qi)).spawn(move || {
            let mut n = 0usize;
            while !stop.load(Ordering::SeqCst) {
                let (kind, sql) = QUERIES[(n + qi) % QUERIES.len()];
                n += 1;
                let must = acked.lock().unwrap().clone();
                let res = d.query(sql);
                let sz = sizes.lock().unwrap().clone();
                let op = opt.lock().unwrap().clone();
                let f = match res {
                    Ok(Ok(out)) => judge(kind, &out, &sz, &must, &op).err().map(|m| Failure::mismatch(format!("stress: `{}`: {}", sql, m)).tag("prefix_consistency").tag(kind.to_string())),
                    Ok(Err(e)) => {
                        std::thread::sleep(Duration::from_millis(30));
                        match db::db_panics().first() {
                            Some(p) => Some(Failure::db_panic(p, &format!("stress: `{}` failed: {}", sql, e.short())).tag(kind.to_string())),
                            None => Some(Failure::mismatch(format!("stress: `{}` failed: {}", sql, e.short())).tag("query_failed").tag(kind.to_string())),
                        }
                    }
                    Err(fault) => Some(Failure::from_fault(&fault, &format!("stress: `{}`", sql)).tag(kind.to_string())),
                };
                if let Some(f) = f {
                    failure.lock().unwrap().get_or_insert(f);
                    return;
                }
            }
        }).unwrap());
    }
    // writers finish, then stop the rest
    for h in handles.drain(..2) {
        let _ = h.join();
    }
    stop.store(true, Ordering::SeqCst);
    for h in handles {
        let _ = h.join();
    }
    for h in qhandles {
        let _ = h.join();
    }
    if let Some(mut f) = failure.lock().unwrap().take() {
        if evictor && ((f.message.contains("unexpected cells (") && f.message.contains("Null")) || f.message.contains("unknown batch 9223372036854775807") || f.message.contains("= NULL") || f.message.contains("v = NULL") || f.message.contains("is missing") || f.message.contains("Expected string column when querying _meta_columns")) {
            // known finding: a column of a not yet persisted partition was evicted and reads as NULL
            f = f.tag("null_column_under_eviction");
            if env.kf_absorb("C10", &f).is_some() {
                let d = Arc::try_unwrap(dbh).map_err(|_| Failure::error("handle still shared"))?;
                d.abandon();
                return Ok(());
            }
        }
        return Err(f);
    }
    if let Some(p) = db::db_panics().first() {
        return Err(Failure::db_panic(p, "stress"));
    }
    // final: everything acknowledged is there
    let w = World { sizes: sizes.lock().unwrap().clone(), acked: acked.lock().unwrap().clone(), opt: opt.lock().unwrap().clone() };
    let d = Arc::try_unwrap(dbh).map_err(|_| Failure::error("handle still shared"))?;
    d.flush().map_err(|f| Failure::from_fault(&f, "stress: final force_flush"))?;
    run_queries(&d, &w, "after the stress run", env, false)?;
    env.nontrivial(&format!("stress pcf={} ops={} workers={}", pcf, ops, workers));
    env.sample(|| json!({"stress": {"pcf": pcf, "ops": ops, "workers": workers, "batches": w.sizes.len()}}));
    d.close().map_err(|f| Failure::from_fault(&f, "close"))?;
    Ok(())
}

pub fn check(case: &Case, env: &mut CaseEnv) -> Result<(), Failure> {
    let r = match case {
        Case::Placed { flushed, unflushed, pcf, mps, second_ingest, opt_mask } => placed(flushed, unflushed, *pcf, *mps, *second_ingest, *opt_mask, env),
        Case::Stress { pcf, ops, workers, evictor } => {
            let r = stress(*pcf, *ops, *workers, *evictor, env);
            db::set_call_deadline(Duration::from_secs(20));
            r
        }
    };
    db::sync_release_all();
    r
}

pub fn shard(ctx: &mut Ctx) {
    let n = ctx.tier.pick(64, 3000);
    let n = ctx.share(n);
    ctx.drive("schedules", case_strategy(), n, check);
}

pub fn replay(_sub: &str, case: &Value, env: &mut CaseEnv) -> Result<(), Failure> {
    let c: Case = serde_json::from_value(case.clone()).map_err(bad_case)?;
    check(&c, env)
}
