//! C09 — recovery after a crash at any point is possible and atomic.

use std::collections::{BTreeMap, BTreeSet};
use std::path::{Path, PathBuf};
use std::sync::atomic::{AtomicUsize, Ordering};
use std::sync::{Arc, Mutex};

use locustdb::verif::fs as vfs;
use proptest::prelude::*;
use serde::{Deserialize, Serialize};
use serde_json::{json, Value};

use crate::db::{self, Db, DbOpts};
use crate::hist::{self, History, Op, OpWeights, Schema};
use crate::model::DbModel;
use crate::props::{bad_case, Entry};
use crate::runner::{CaseEnv, Ctx, Failure};

pub fn entry() -> Entry {
    Entry {
        id: "C09",
        shard,
        replay,
        level: "fault_enumeration",
        rule: "generated workloads (1-6 steps over ingest into 1-2 tables / force_flush with and without compaction / restart; background flushes off, single-threaded pools) are run once while hook H1 records every primitive file-system effect of the blob writer (mkdir, temp file created, written, synced, renamed; file removed). EVERY prefix of that effect sequence - plus torn temp files holding 1, half and all-but-one bytes of the payload - is materialised as a directory and opened: opening must terminate without panic and the content must equal the acknowledged prefix of the workload, or that plus the one in-flight ingestion request taken whole; then the recovered database is flushed and reopened (same content), and every prefix of the recovery's own effects is materialised and recovered again (idempotence). Non-trivial = crash point strictly inside an operation; distinct = (operation kind, effect kind, position in the operation)",
        assumptions: &["a crash leaves exactly a prefix of the recorded effects (no reordering of un-synced writes, no lost rename)", "the effect sequence is the one the real run produced (table order inside a flush follows the engine's hash map order)"],
        quick_budget_s: 1500,
        thorough_budget_s: 7200,
        required_classes: &["op:ingest", "op:flush", "op:restart", "effect:Create", "effect:Write", "effect:Sync", "effect:Rename", "effect:Remove", "effect:Mkdir", "torn:partial", "inflight:ingest", "inflight:flush", "recovery:crashed_again", "flush:compacting"],
        exhaustive_claim: true,
    }
}

#[derive(Clone, Debug, Serialize, Deserialize)]
pub struct Case {
    pub history: History,
}

#[derive(Clone, Debug)]
struct Eff {
    kind: vfs::Kind,
    path: String,
    to: Option<String>,
    data: Option<Vec<u8>>,
    op: usize,
}

struct Recorder {
    root: PathBuf,
    effects: Vec<Eff>,
}

lazy_static::lazy_static! {
    static ref REC: Mutex<Option<Recorder>> = Mutex::new(None);
}
static CURRENT_OP: AtomicUsize = AtomicUsize::new(0);

pub fn install_fs_hook() {
    vfs::set(Some(Arc::new(|e: &vfs::Effect| {
        if e.phase != vfs::Phase::After {
            return;
        }
        let mut g = REC.lock().unwrap();
        if let Some(r) = g.as_mut() {
            if let Ok(rel) = e.path.strip_prefix(&r.root) {
                let to = e.to.and_then(|t| t.strip_prefix(&r.root).ok().map(|p| p.to_string_lossy().to_string()));
                r.effects.push(Eff { kind: e.kind, path: rel.to_string_lossy().to_string(), to, data: e.data.map(|d| d.to_vec()), op: CURRENT_OP.load(Ordering::SeqCst) });
            }
        }
    })));
}

fn start_recording(root: &Path) {
    *REC.lock().unwrap() = Some(Recorder { root: root.to_path_buf(), effects: vec![] });
}

fn stop_recording() -> Vec<Eff> {
    REC.lock().unwrap().take().map(|r| r.effects).unwrap_or_default()
}

#[derive(Clone, Default, Debug, PartialEq)]
struct FsState {
    dirs: BTreeSet<String>,
    files: BTreeMap<String, Vec<u8>>,
}

impl FsState {
    fn apply(&mut self, e: &Eff) {
        match e.kind {
            vfs::Kind::Mkdir => {
                self.dirs.insert(e.path.clone());
            }
            vfs::Kind::Create => {
                self.files.insert(e.path.clone(), vec![]);
            }
            vfs::Kind::Write => {
                self.files.insert(e.path.clone(), e.data.clone().unwrap_or_default());
            }
            vfs::Kind::Sync => {}
            vfs::Kind::Rename => {
                if let (Some(d), Some(to)) = (self.files.remove(&e.path), e.to.as_ref()) {
                    self.files.insert(to.clone(), d);
                }
            }
            vfs::Kind::Remove => {
                self.files.remove(&e.path);
            }
        }
    }

    fn materialise(&self, root: &Path) {
        for d in &self.dirs {
            let _ = std::fs::create_dir_all(root.join(d));
        }
        for (f, data) in &self.files {
            let p = root.join(f);
            if let Some(parent) = p.parent() {
                let _ = std::fs::create_dir_all(parent);
            }
            std::fs::write(&p, data).expect("materialise");
        }
    }

    fn from_dir(root: &Path) -> FsState {
        let mut s = FsState::default();
        for (rel, _) in db::list_dir(root) {
            let data = std::fs::read(root.join(&rel)).unwrap_or_default();
            s.files.insert(rel, data);
        }
        s
    }
}

fn opts() -> BoxedStrategy<DbOpts> {
    (prop_oneof![Just(0u64), Just(1), Just(999)], prop_oneof![Just(1u64), Just(8 * 1024 * 1024)], any::<bool>())
        .prop_map(|(pcf, mps, lz4)| DbOpts {
            threads: 2,
            partition_combine_factor: pcf,
            max_partition_size_bytes: mps,
            mem_lz4: lz4,
            io_threads: 1,
            wal_flush_compaction_threads: 1,
            // no background flushes: the effect sequence is what the workload's own steps produce
            max_wal_files: 100_000,
            max_wal_size_bytes: u64::MAX / 4,
            ..DbOpts::default()
        })
        .boxed()
}

fn case_strategy() -> BoxedStrategy<Case> {
    let schema = Schema { tables: vec!["t0".into(), "t1".into()], max_rows: 3, rich_values: false, ..Schema::simple() };
    (opts(), hist::ops(schema, OpWeights { ingest: 5, flush: 3, evict: 0, restart: 1 }, 1..6))
        .prop_map(|(opts, ops)| Case { history: History { opts, ops } })
        .boxed()
}

/// Opens a materialised state and checks its content against the allowed models. Returns the index of
/// the model that matched and the effects the recovery itself caused.
fn recover_and_check(opts: &DbOpts, state: &FsState, allowed: &[&DbModel], ctx: &str, deep: bool) -> Result<(usize, Vec<Eff>), Failure> {
    let dir = db::temp_dir("c09r");
    state.materialise(dir.path());
    db::clear_panics();
    start_recording(dir.path());
    let opened = Db::open(opts, Some(dir.path()));
    let dbh = match opened {
        Ok(d) => d,
        Err(f) => {
            stop_recording();
            let mut fl = Failure::from_fault(&f, &format!("opening the database after {}", ctx));
            fl = fl.tag("recovery_open");
            return Err(fl);
        }
    };
    let recovery_effects = stop_recording();
    if let Some(p) = db::db_panics().first() {
        return Err(Failure::db_panic(p, &format!("recovery after {}", ctx)).tag("recovery_open"));
    }
    let mut matched = None;
    let mut first_err = None;
    for (i, m) in allowed.iter().enumerate() {
        match hist::check_content(&dbh, m, &format!("after recovery from {}", ctx)).and_then(|_| hist::check_catalogue(&dbh, m, &format!("after recovery from {}", ctx))) {
            Ok(()) => {
                matched = Some(i);
                break;
            }
            Err(e) => {
                if first_err.is_none() {
                    first_err = Some(e);
                }
            }
        }
    }
    let matched = match matched {
        Some(m) => m,
        None => {
            let e = first_err.unwrap();
            return Err(Failure::mismatch(format!("{} (content equals neither the acknowledged prefix nor that plus the in-flight request)", e.message)).tag("recovered_content").tag(if e.kind == "panic" { "panic_in_query" } else { "mismatch" }));
        }
    };
    if deep {
        // the recovered database must keep working: flush, same content; reopen, same content
        dbh.flush().map_err(|f| Failure::from_fault(&f, &format!("force_flush after recovery from {}", ctx)).tag("post_recovery_flush"))?;
        if let Some(p) = db::db_panics().first() {
            return Err(Failure::db_panic(p, &format!("force_flush after recovery from {}", ctx)).tag("post_recovery_flush"));
        }
        hist::check_content(&dbh, allowed[matched], &format!("after recovery from {} and a flush", ctx))?;
        dbh.close().map_err(|f| Failure::from_fault(&f, "close"))?;
        let again = Db::open(opts, Some(dir.path())).map_err(|f| Failure::from_fault(&f, &format!("second open after recovery from {}", ctx)).tag("recovery_open"))?;
        hist::check_content(&again, allowed[matched], &format!("after recovery from {}, a flush and a restart", ctx))?;
        hist::check_catalogue(&again, allowed[matched], &format!("after recovery from {}, a flush and a restart", ctx))?;
        again.close().map_err(|f| Failure::from_fault(&f, "close"))?;
    } else {
        dbh.close().map_err(|f| Failure::from_fault(&f, "close"))?;
    }
    Ok((matched, recovery_effects))
}

pub fn check(case: &Case, env: &mut CaseEnv) -> Result<(), Failure> {
    let h = &case.history;
    env.sample(|| json!({"workload": h.describe()}));
    // 1. the real run, recorded
    let dir = db::temp_dir("c09");
    start_recording(dir.path());
    CURRENT_OP.store(usize::MAX, Ordering::SeqCst);
    let mut run = hist::Run::start(&h.opts, dir.path()).map_err(|e| { stop_recording(); e })?;
    // models[i] = acknowledged content before op i
    let mut models: Vec<DbModel> = vec![];
    for (i, op) in h.ops.iter().enumerate() {
        env.class(&format!("op:{}", op.kind()));
        models.push(run.model.clone());
        CURRENT_OP.store(i, Ordering::SeqCst);
        if let Err(e) = run.apply(i, op) {
            stop_recording();
            return Err(e);
        }
    }
    models.push(run.model.clone());
    CURRENT_OP.store(usize::MAX, Ordering::SeqCst);
    let final_state_check = hist::check_content(run.db(), &run.model, "at the end of the recorded run");
    let r = run.finish();
    let effects = stop_recording();
    final_state_check?;
    r?;
    // sanity: the reconstructed final state equals the real directory
    let mut st = FsState::default();
    for e in &effects {
        st.apply(e);
    }
    let real = FsState::from_dir(dir.path());
    if st.files != real.files {
        return Err(Failure::error(format!("harness: reconstructed file-system state differs from the real directory (reconstructed {:?}, real {:?})", st.files.keys().collect::<Vec<_>>(), real.files.keys().collect::<Vec<_>>())));
    }
    if effects.iter().any(|e| e.kind == vfs::Kind::Remove && e.path.starts_with("tables/")) {
        env.class("flush:compacting");
    }
    // 2. every crash point
    let n = effects.len();
    let mut state = FsState::default();
    let deep_stride = if env.tier == crate::runner::Tier::Quick { 3 } else { 1 };
    for k in 0..=n {
        // state = effects[..k] applied
        let inflight_op = if k < n { Some(effects[k].op) } else { None };
        let (allowed, inflight_desc): (Vec<&DbModel>, String) = match inflight_op {
            Some(j) if j < h.ops.len() => {
                let mut v = vec![&models[j]];
                if matches!(h.ops[j], Op::Ingest(_)) {
                    v.push(&models[j + 1]);
                    env.class("inflight:ingest");
                } else {
                    env.class(&format!("inflight:{}", h.ops[j].kind()));
                }
                (v, format!("op {} ({})", j, h.ops[j].kind()))
            }
            _ => (vec![models.last().unwrap()], "no operation".to_string()),
        };
        let inside = k > 0 && k < n && effects[k - 1].op == effects[k].op;
        let mut variants: Vec<(FsState, String)> = vec![(state.clone(), format!("a crash after {} of {} file-system effects ({} in flight; next effect: {})", k, n, inflight_desc, if k < n { format!("{:?} {}", effects[k].kind, effects[k].path) } else { "none".into() }))];
        if k < n && effects[k].kind == vfs::Kind::Write {
            // torn temp file: the next effect is the write of the payload
            let data = effects[k].data.clone().unwrap_or_default();
            for t in [1usize, data.len() / 2, data.len().saturating_sub(1)] {
                if t > 0 && t < data.len() {
                    let mut s = state.clone();
                    s.files.insert(effects[k].path.clone(), data[..t].to_vec());
                    variants.push((s, format!("a crash during the write of {} ({} of {} bytes on disk; {} in flight)", effects[k].path, t, data.len(), inflight_desc)));
                    env.class("torn:partial");
                }
            }
        }
        for (vi, (s, ctx)) in variants.iter().enumerate() {
            let ctx = format!("{} in workload [{}]", ctx, h.describe());
            let deep = vi == 0 && (k % deep_stride == 0 || k == n);
            let (matched, rec_effects) = recover_and_check(&h.opts, s, &allowed, &ctx, deep)?;
            env.add_evaluations(1);
            if k < n {
                env.class(&format!("effect:{:?}", effects[k].kind));
            }
            if inside || vi > 0 {
                let (opk, effk, pos) = if k < n { (h.ops.get(effects[k].op).map(|o| o.kind()).unwrap_or("open"), format!("{:?}", effects[k].kind), effects[..k].iter().filter(|e| e.op == effects[k].op).count()) } else { ("end", String::new(), 0) };
                env.nontrivial(&format!("{}|{}|{}|{}", opk, effk, pos, vi));
            }
            // 3. crash the recovery itself: every prefix of its effects, one level deep
            if !rec_effects.is_empty() && (vi == 0) {
                let mut s2 = s.clone();
                for (r, e) in rec_effects.iter().enumerate() {
                    s2.apply(e);
                    if r + 1 == rec_effects.len() {
                        break; // the complete recovery was checked above
                    }
                    env.class("recovery:crashed_again");
                    let ctx2 = format!("a second crash after {} of {} effects of the recovery that followed {}", r + 1, rec_effects.len(), ctx);
                    recover_and_check(&h.opts, &s2, &[allowed[matched]], &ctx2, false)?;
                    env.add_evaluations(1);
                }
            }
        }
        if k < n {
            state.apply(&effects[k]);
        }
    }
    Ok(())
}

pub fn shard(ctx: &mut Ctx) {
    install_fs_hook();
    let n = ctx.tier.pick(160, 4000);
    let n = ctx.share(n);
    ctx.stats.borrow_mut().exhaustive_subspaces.push("every prefix of the recorded file-system effect sequence of each generated workload (plus torn-write variants), and every prefix of each recovery's own effects".to_string());
    ctx.drive("crash", case_strategy(), n, check);
}

pub fn replay(_sub: &str, case: &Value, env: &mut CaseEnv) -> Result<(), Failure> {
    install_fs_hook();
    let c: Case = serde_json::from_value(case.clone()).map_err(bad_case)?;
    check(&c, env)
}
