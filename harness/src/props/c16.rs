//! C16 — client/server encodings are lossless.

use std::collections::{BTreeMap, HashMap};

use locustdb_compression_utils::xor_float;
use locustdb_serialization::api::{AnyVal, Column, MultiQueryResponse, QueryResponse};
use locustdb_serialization::event_buffer::{ColumnData, EventBuffer};
use proptest::collection::vec;
use proptest::prelude::*;
use serde::{Deserialize, Serialize};
use serde_json::{json, Value};

use crate::db;
use crate::gen::{self, ColType};
use crate::hist::{self, Schema};
use crate::model::{cell_to_anyval, Cell, ColRep, FBits, Request};
use crate::props::{bad_case, Entry};
use crate::runner::{CaseEnv, Ctx, Failure};

pub fn entry() -> Entry {
    Entry {
        id: "C16",
        shard,
        replay,
        level: "exploration",
        rule: "(a) event buffers built through the native types and through the wire schema (dense, sparse, i64, sparse i64, string, mixed, empty; several tables) must decode to the same tables, columns, row counts and cells; (a') buffers built one row at a time through the row API (numeric columns receiving NULL / int / float per row in int-only, float-only and mixed profiles with no, some or many gaps; string columns; with and without an explicit timestamp) must hold, before and after the wire round trip, the cells that were logged (ints logged into a column that also received a float read as floats); (b) query responses with integer columns (constant, arithmetic, deltas and double deltas at the i8/i16/i32 boundaries +-1, extremes whose differences overflow i64, lengths 0-3), float, string, mixed, null and xor columns must decode value for value whatever layout the encoder chose; (c) xor float compression (mantissa None or 0..=52, max_regret in {0,30,100,1000}) must be bit-exact without mantissa and keep sign, exponent and the leading m mantissa bits with mantissa m. Non-trivial = length >= 3 and a non-trivial layout (not plain i64 / not all-equal floats); distinct = canonical case text",
        assumptions: &["NaN payloads are compared by bit pattern", "with a reduced mantissa only sign, exponent and the requested leading mantissa bits are compared"],
        quick_budget_s: 600,
        thorough_budget_s: 3600,
        required_classes: &["int:constant", "int:arithmetic", "int:delta_i8_edge", "int:delta_i16_edge", "int:delta_i32_edge", "int:ddelta_i8_edge", "int:extreme", "int:len0", "int:len1", "int:len2", "float:nan_payloads", "float:repeats", "float:signflips", "float:subnormal", "mantissa:none", "mantissa:0", "mantissa:52", "mantissa:mid", "eb:sparse", "eb:mixed", "eb:empty", "rows:int", "rows:float", "rows:int_and_float", "rows:string", "rows:gaps", "rows:first_value_late", "rows:int_after_gap_in_dense_float", "col:mixed", "col:null", "col:string"],
        exhaustive_claim: false,
    }
}

#[derive(Clone, Debug, Serialize, Deserialize)]
pub enum Case {
    Ints { class: String, xs: Vec<i64> },
    Floats { class: String, xs: Vec<FBits>, mantissa: Option<u32>, max_regret: u32 },
    Response { cols: Vec<(String, RCol)> },
    Events { req: Request, native: bool },
    /// Rows logged one at a time through the row API (`TableBuffer::push_row_and_timestamp`), the way the logging client
    /// builds its buffers. `strs[c]` says whether column c is a string column (a string in every row) or a numeric one
    /// (NULL / int / float per row). `timestamp`: whether every row carries its own "timestamp" value.
    Rows { strs: Vec<bool>, rows: Vec<Vec<Cell>>, timestamp: bool },
}

#[derive(Clone, Debug, PartialEq, Serialize, Deserialize)]
pub enum RCol {
    Int(Vec<i64>),
    Float(Vec<FBits>),
    Str(Vec<String>),
    Mixed(Vec<Cell>),
    Null(usize),
    Xor(Vec<u8>),
}

fn int_seq() -> BoxedStrategy<(String, Vec<i64>)> {
    let edge = |b: i64| prop_oneof![Just(b - 1), Just(b), Just(b + 1), Just(-b - 1), Just(-b), Just(-b + 1), Just(-b - 2)];
    prop_oneof![
        1 => (any::<i64>(), 0usize..40).prop_map(|(c, n)| ("int:constant".to_string(), vec![c; n])),
        2 => (any::<i64>(), prop_oneof![-1000i64..1000, any::<i64>(), Just(i64::MAX), Just(i64::MIN)], 0usize..40).prop_map(|(s, step, n)| {
            ("int:arithmetic".to_string(), (0..n).map(|i| s.wrapping_add((i as i64).wrapping_mul(step))).collect())
        }),
        2 => (any::<i32>(), vec(edge(127), 2..30)).prop_map(|(s, d)| ("int:delta_i8_edge".to_string(), accumulate(s as i64, &d))),
        2 => (any::<i32>(), vec(edge(32767), 2..30)).prop_map(|(s, d)| ("int:delta_i16_edge".to_string(), accumulate(s as i64, &d))),
        2 => (any::<i32>(), vec(edge(2147483647), 2..30)).prop_map(|(s, d)| ("int:delta_i32_edge".to_string(), accumulate(s as i64, &d))),
        2 => (any::<i32>(), -100000i64..100000, vec(edge(127), 2..30)).prop_map(|(s, d0, dd)| {
            let deltas = accumulate(d0, &dd);
            ("int:ddelta_i8_edge".to_string(), accumulate(s as i64, &deltas))
        }),
        1 => (any::<i32>(), any::<i32>(), vec(edge(32767), 2..30)).prop_map(|(s, d0, dd)| {
            let deltas = accumulate(d0 as i64, &dd);
            ("int:ddelta_i16_edge".to_string(), accumulate(s as i64, &deltas))
        }),
        2 => vec(prop_oneof![Just(i64::MIN), Just(i64::MAX), Just(0i64), Just(-1i64), Just(1i64), Just(i64::MIN + 1), Just(i64::MAX - 1), any::<i64>()], 0..12).prop_map(|v| ("int:extreme".to_string(), v)),
        2 => vec(any::<i64>(), 0..40).prop_map(|v| ("int:random".to_string(), v)),
        1 => vec(-5i64..5, 0..4).prop_map(|v| (format!("int:len{}", v.len()), v)),
    ]
    .boxed()
}

fn accumulate(start: i64, deltas: &[i64]) -> Vec<i64> {
    let mut out = vec![start];
    let mut cur = start;
    for d in deltas {
        cur = cur.wrapping_add(*d);
        out.push(cur);
    }
    out
}

fn float_seq() -> BoxedStrategy<(String, Vec<f64>)> {
    let sp = gen::special_floats();
    prop_oneof![
        2 => (proptest::sample::select(sp.clone()), 0usize..40).prop_map(|(c, n)| ("float:repeats".to_string(), vec![c; n])),
        2 => (proptest::sample::select(sp.clone()), vec(any::<bool>(), 0..40)).prop_map(|(c, f)| ("float:signflips".to_string(), f.into_iter().map(|b| if b { -c } else { c }).collect())),
        2 => vec(prop_oneof![Just(f64::NAN), Just(f64::from_bits(0x7ff8_0000_0000_0001)), Just(f64::from_bits(0xfff8_dead_beef_0000)), Just(f64::from_bits(0x7ffa_aaaa_aaaa_aaaa)), Just(1.0f64), Just(f64::INFINITY), Just(f64::NEG_INFINITY)], 0..30).prop_map(|v| ("float:nan_payloads".to_string(), v)),
        2 => vec(prop_oneof![Just(5e-324f64), Just(f64::MIN_POSITIVE / 2.0), Just(-f64::MIN_POSITIVE / 8.0), Just(0.0f64), Just(-0.0f64), Just(f64::MIN_POSITIVE)], 0..30).prop_map(|v| ("float:subnormal".to_string(), v)),
        3 => vec(any::<f64>(), 0..40).prop_map(|v| ("float:random".to_string(), v)),
        2 => (any::<f64>(), vec(-3i32..4, 0..40)).prop_map(|(s, steps)| {
            // slowly varying values (few differing bits), the case xor compression is made for
            let mut cur = if s.is_finite() { s } else { 1.0 };
            ("float:slow_walk".to_string(), steps.into_iter().map(|d| { cur = f64::from_bits(cur.to_bits().wrapping_add(d as i64 as u64)); cur }).collect())
        }),
        1 => vec(any::<u64>().prop_map(f64::from_bits), 0..30).prop_map(|v| ("float:any_bits".to_string(), v)),
    ]
    .boxed()
}

fn rcol() -> BoxedStrategy<RCol> {
    prop_oneof![
        3 => int_seq().prop_map(|(_, v)| RCol::Int(v)),
        2 => float_seq().prop_map(|(_, v)| RCol::Float(v.into_iter().map(FBits::of).collect())),
        2 => vec("\\PC{0,8}", 0..10).prop_map(RCol::Str),
        2 => vec(prop_oneof![Just(Cell::Null), any::<i64>().prop_map(Cell::Int), any::<f64>().prop_map(Cell::float), "[a-z]{0,4}".prop_map(Cell::Str)], 0..12).prop_map(RCol::Mixed),
        1 => (0usize..100).prop_map(RCol::Null),
        1 => vec(any::<u8>(), 0..40).prop_map(RCol::Xor),
    ]
    .boxed()
}

/// Numeric cell of a logged row. Profiles make the interesting column histories likely: int only, float only, and
/// ints logged into a float column / floats into an int column; NULLs none, some, or many (late first value, gaps).
fn num_cell(profile: u8, nulls: u8) -> BoxedStrategy<Cell> {
    let int = prop_oneof![3 => -3i64..100, 1 => any::<i64>(), 1 => Just(i64::MAX), 1 => Just(i64::MIN), 1 => Just((1i64 << 53) + 1)].prop_map(Cell::Int);
    let float = prop_oneof![3 => (-8i32..64).prop_map(|i| i as f64 / 4.0), 2 => any::<f64>(), 1 => Just(f64::NAN), 1 => Just(-0.0f64), 1 => Just(f64::INFINITY)].prop_map(Cell::float);
    let (wi, wf) = match profile { 0 => (1, 0), 1 => (0, 1), 2 => (1, 3), _ => (3, 1) };
    let wn = match nulls { 0 => 0, 1 => 1, _ => 4 };
    let mut arms: Vec<(u32, BoxedStrategy<Cell>)> = vec![];
    if wi > 0 { arms.push((wi * 2, int.boxed())); }
    if wf > 0 { arms.push((wf * 2, float.boxed())); }
    if wn > 0 { arms.push((wn, Just(Cell::Null).boxed())); }
    proptest::strategy::Union::new_weighted(arms).boxed()
}

fn rows_case() -> BoxedStrategy<Case> {
    (vec((prop_oneof![4 => Just(false), 1 => Just(true)], 0u8..4, 0u8..3), 1..5), 0usize..14, any::<bool>())
        .prop_flat_map(|(cols, nrows, timestamp)| {
            let strs: Vec<bool> = cols.iter().map(|c| c.0).collect();
            let row: Vec<BoxedStrategy<Cell>> = cols.iter().map(|(is_str, profile, nulls)| if *is_str { "[a-z\\PC]{0,4}".prop_map(Cell::Str).boxed() } else { num_cell(*profile, *nulls) }).collect();
            (Just(strs), vec(row, nrows..=nrows), Just(timestamp))
        })
        .prop_map(|(strs, rows, timestamp)| Case::Rows { strs, rows, timestamp })
        .boxed()
}

fn case_strategy() -> BoxedStrategy<Case> {
    let schema = Schema { tables: vec!["t0".into(), "t\u{e4}".into(), "".into()], ..Schema::simple() };
    prop_oneof![
        4 => int_seq().prop_map(|(class, xs)| Case::Ints { class, xs }),
        4 => (float_seq(), prop_oneof![2 => Just(None), 1 => Just(Some(0u32)), 1 => Just(Some(52u32)), 1 => Just(Some(23u32)), 2 => (0u32..=52).prop_map(Some)], proptest::sample::select(vec![0u32, 30, 100, 1000]))
            .prop_map(|((class, xs), mantissa, max_regret)| Case::Floats { class, xs: xs.into_iter().map(FBits::of).collect(), mantissa, max_regret }),
        2 => vec(("[a-c]{1,3}", rcol()), 0..5).prop_map(|cols| {
            let mut seen = BTreeMap::new();
            for (n, c) in cols { seen.insert(n, c); }
            Case::Response { cols: seen.into_iter().collect() }
        }),
        3 => (hist::request(schema), any::<bool>()).prop_map(|(req, native)| Case::Events { req, native }),
        3 => rows_case(),
    ]
    .boxed()
}

fn to_api(c: &RCol) -> Column {
    match c {
        RCol::Int(v) => Column::Int(v.clone()),
        RCol::Float(v) => Column::Float(v.iter().map(|f| f.get()).collect()),
        RCol::Str(v) => Column::String(v.clone()),
        RCol::Mixed(v) => Column::Mixed(v.iter().map(cell_to_anyval).collect()),
        RCol::Null(n) => Column::Null(*n),
        RCol::Xor(b) => Column::Xor(b.clone()),
    }
}

fn from_api(c: &Column) -> RCol {
    match c {
        Column::Int(v) => RCol::Int(v.clone()),
        Column::Float(v) => RCol::Float(v.iter().map(|f| FBits::of(*f)).collect()),
        Column::String(v) => RCol::Str(v.clone()),
        Column::Mixed(v) => RCol::Mixed(v.iter().map(|a| match a { AnyVal::Int(i) => Cell::Int(*i), AnyVal::Float(f) => Cell::float(*f), AnyVal::Str(s) => Cell::Str(s.clone()), AnyVal::Null => Cell::Null }).collect()),
        Column::Null(n) => RCol::Null(*n),
        Column::Xor(b) => RCol::Xor(b.clone()),
    }
}

fn response_roundtrip(cols: &[(String, RCol)]) -> Result<Vec<(String, RCol)>, String> {
    let resp = MultiQueryResponse { responses: vec![QueryResponse { columns: cols.iter().map(|(n, c)| (n.clone(), to_api(c))).collect::<HashMap<_, _>>() }] };
    let bytes = resp.serialize();
    let back = MultiQueryResponse::deserialize(&bytes).map_err(|e| format!("own message does not decode: {}", e))?;
    if back.responses.len() != 1 {
        return Err(format!("{} responses after the round trip", back.responses.len()));
    }
    let mut out: Vec<(String, RCol)> = back.responses[0].columns.iter().map(|(n, c)| (n.clone(), from_api(c))).collect();
    out.sort_by(|a, b| a.0.cmp(&b.0));
    Ok(out)
}

fn column_data_cells(d: &ColumnData, rows: usize) -> Vec<Cell> {
    let rep = match d {
        ColumnData::Dense(v) => ColRep::Dense(v.iter().map(|f| FBits::of(*f)).collect()),
        ColumnData::Sparse(v) => ColRep::Sparse(v.iter().map(|(i, f)| (*i, FBits::of(*f))).collect()),
        ColumnData::I64(v) => ColRep::I64(v.clone()),
        ColumnData::SparseI64(v) => ColRep::SparseI64(v.clone()),
        ColumnData::String(v) => ColRep::Str(v.clone()),
        ColumnData::Mixed(v) => ColRep::Mixed(v.iter().map(|a| match a { AnyVal::Int(i) => Cell::Int(*i), AnyVal::Float(f) => Cell::float(*f), AnyVal::Str(s) => Cell::Str(s.clone()), AnyVal::Null => Cell::Null }).collect()),
        ColumnData::Empty => ColRep::Empty,
    };
    rep.cells(rows)
}

pub fn check(case: &Case, env: &mut CaseEnv) -> Result<(), Failure> {
    let run = || -> Result<(), Failure> {
        match case {
            Case::Ints { class, xs } => {
                env.class(class);
                if xs.len() < 3 {
                    env.class(&format!("int:len{}", xs.len()));
                }
                let back = response_roundtrip(&[("c".to_string(), RCol::Int(xs.clone()))]).map_err(Failure::mismatch)?;
                if back != vec![("c".to_string(), RCol::Int(xs.clone()))] {
                    let got = match &back[..] { [(_, RCol::Int(v))] => v.clone(), _ => vec![] };
                    let pos = xs.iter().zip(got.iter()).position(|(a, b)| a != b);
                    return Err(Failure::mismatch(format!("integer column {:?} decodes to {:?} (first difference at index {:?}; {} vs {} values)", xs, got, pos, xs.len(), got.len())).tag("int_codec"));
                }
                if xs.len() >= 3 && class != "int:random" {
                    env.nontrivial(&format!("{:?}", xs));
                }
            }
            Case::Floats { class, xs, mantissa, max_regret } => {
                env.class(class);
                env.class(&match mantissa { None => "mantissa:none".to_string(), Some(0) => "mantissa:0".to_string(), Some(52) => "mantissa:52".to_string(), Some(_) => "mantissa:mid".to_string() });
                let fs: Vec<f64> = xs.iter().map(|f| f.get()).collect();
                let enc = xor_float::double::encode(&fs, *max_regret, *mantissa);
                let dec = xor_float::double::decode(&enc).map_err(|e| Failure::mismatch(format!("xor decode of own encoding failed: {:?}", e)).tag("xor_decode"))?;
                if dec.len() != fs.len() {
                    return Err(Failure::mismatch(format!("xor: {} values encoded, {} decoded", fs.len(), dec.len())).tag("xor_len"));
                }
                let keep: u64 = match mantissa { None => u64::MAX, Some(m) => u64::MAX - ((1u64 << (52 - m)) - 1) };
                for (i, (a, b)) in fs.iter().zip(dec.iter()).enumerate() {
                    if (a.to_bits() & keep) != (b.to_bits() & keep) {
                        return Err(Failure::mismatch(format!("xor (mantissa {:?}, max_regret {}): value {} is {:016x}, decoded {:016x} (kept bits {:016x})", mantissa, max_regret, i, a.to_bits(), b.to_bits(), keep)).tag("xor_value"));
                    }
                }
                // through the response message as well
                let back = response_roundtrip(&[("f".to_string(), RCol::Float(xs.clone())), ("x".to_string(), RCol::Xor(enc.clone()))]).map_err(Failure::mismatch)?;
                if back != vec![("f".to_string(), RCol::Float(xs.clone())), ("x".to_string(), RCol::Xor(enc))] {
                    return Err(Failure::mismatch("float / xor column changed in the response round trip".to_string()).tag("float_column"));
                }
                let all_equal = xs.windows(2).all(|w| w[0] == w[1]);
                if xs.len() >= 3 && !all_equal {
                    env.nontrivial(&format!("{:?}{:?}{}", xs, mantissa, max_regret));
                }
            }
            Case::Response { cols } => {
                for (_, c) in cols {
                    env.class(match c { RCol::Int(_) => "col:int", RCol::Float(_) => "col:float", RCol::Str(_) => "col:string", RCol::Mixed(_) => "col:mixed", RCol::Null(_) => "col:null", RCol::Xor(_) => "col:xor" });
                }
                let back = response_roundtrip(cols).map_err(Failure::mismatch)?;
                if &back != cols {
                    return Err(Failure::mismatch(format!("response {:?} decodes to {:?}", cols, back)).tag("response"));
                }
                if cols.len() >= 2 {
                    env.nontrivial(&format!("{:?}", cols));
                }
            }
            Case::Events { req, native } => {
                let eb = if *native { req.to_event_buffer_native() } else { req.to_event_buffer() };
                for b in req.tables.values() {
                    for c in b.cols.values() {
                        env.class(&format!("eb:{}", c.kind().replace("sparse_i64", "sparse")));
                    }
                }
                let bytes = eb.serialize();
                let back = EventBuffer::deserialize(&bytes).map_err(|e| Failure::mismatch(format!("own event buffer does not decode: {}", e)))?;
                let names: Vec<&String> = { let mut v: Vec<&String> = back.tables.keys().collect(); v.sort(); v };
                let want: Vec<&String> = req.tables.keys().collect();
                if names != want {
                    return Err(Failure::mismatch(format!("tables {:?} decode to {:?}", want, names)).tag("eb_tables"));
                }
                for (t, b) in &req.tables {
                    let tb = &back.tables[t];
                    if tb.len() != b.rows {
                        return Err(Failure::mismatch(format!("table {:?}: {} rows sent, {} decoded", t, b.rows, tb.len())).tag("eb_rows"));
                    }
                    let got: BTreeMap<String, Vec<Cell>> = tb.columns().map(|(n, c)| (n.clone(), column_data_cells(&c.data, b.rows))).collect();
                    let exp: BTreeMap<String, Vec<Cell>> = b.cols.iter().map(|(n, c)| (n.clone(), c.cells(b.rows))).collect();
                    if got != exp {
                        return Err(Failure::mismatch(format!("table {:?}: columns {:?} decode to {:?}", t, exp, got)).tag("eb_cells"));
                    }
                }
                if req.tables.values().any(|b| b.rows >= 3) {
                    env.nontrivial(&format!("{:?}", req));
                }
            }
            Case::Rows { strs, rows, timestamp } => {
                // the client's way of building a message: one row at a time
                let mut eb = EventBuffer::default();
                let names: Vec<String> = (0..strs.len()).map(|c| format!("c{}", c)).collect();
                {
                    let tb = eb.tables.entry("t".to_string()).or_default();
                    for (r, row) in rows.iter().enumerate() {
                        let mut items: Vec<(String, AnyVal)> = row.iter().enumerate().map(|(c, cell)| (names[c].clone(), cell_to_anyval(cell))).collect();
                        if *timestamp {
                            items.push(("timestamp".to_string(), AnyVal::Float(r as f64 + 0.5)));
                        }
                        tb.push_row_and_timestamp(items);
                    }
                }
                // the model: a numeric column that ever received a float is a float column (ints logged into it are
                // converted, as the row API documents by construction); everything else is kept as logged
                let mut exp: BTreeMap<String, Vec<Cell>> = BTreeMap::new();
                for (c, name) in names.iter().enumerate() {
                    let any_float = rows.iter().any(|r| matches!(r[c], Cell::Float(_)));
                    let any_int = rows.iter().any(|r| matches!(r[c], Cell::Int(_)));
                    let any_null = rows.iter().any(|r| r[c].is_null());
                    let first_late = rows.first().map(|r| r[c].is_null()).unwrap_or(false) && (any_float || any_int);
                    env.class(match (strs[c], any_float, any_int) { (true, _, _) => "rows:string", (_, true, true) => "rows:int_and_float", (_, true, false) => "rows:float", (_, false, true) => "rows:int", _ => "rows:all_null" });
                    if any_null && (any_float || any_int) { env.class("rows:gaps"); }
                    if first_late { env.class("rows:first_value_late"); }
                    let int_after_gap_in_float = (1..rows.len()).any(|r| matches!(rows[r][c], Cell::Int(_)) && rows[r - 1][c].is_null() && matches!(rows[0][c], Cell::Float(_)));
                    if int_after_gap_in_float { env.class("rows:int_after_gap_in_dense_float"); }
                    exp.insert(name.clone(), rows.iter().map(|r| match &r[c] { Cell::Int(i) if any_float => Cell::float(*i as f64), other => other.clone() }).collect());
                }
                if *timestamp {
                    exp.insert("timestamp".to_string(), (0..rows.len()).map(|r| Cell::float(r as f64 + 0.5)).collect());
                }
                let compare = |stage: &str, tb: &locustdb_serialization::event_buffer::TableBuffer| -> Result<(), Failure> {
                    if tb.len() != rows.len() {
                        return Err(Failure::mismatch(format!("{}: {} rows logged, table buffer has {}", stage, rows.len(), tb.len())).tag("rows_len"));
                    }
                    let mut got: BTreeMap<String, Vec<Cell>> = tb.columns().map(|(n, c)| (n.clone(), column_data_cells(&c.data, rows.len()))).collect();
                    if !*timestamp {
                        // the buffer stamps each row with the wall clock: any finite float per row is right
                        match got.remove("timestamp") {
                            Some(ts) if ts.iter().all(|c| matches!(c, Cell::Float(f) if f.get().is_finite())) => {}
                            None if rows.is_empty() => {}
                            other => return Err(Failure::mismatch(format!("{}: automatic timestamp column is {:?} for {} rows", stage, other, rows.len())).tag("rows_timestamp")),
                        }
                    }
                    // a column that only ever received NULL may be absent
                    for (n, cells) in &exp {
                        if !got.contains_key(n) && cells.iter().all(|c| c.is_null()) {
                            got.insert(n.clone(), cells.clone());
                        }
                    }
                    if &got != &exp {
                        let col = exp.keys().find(|k| got.get(*k) != exp.get(*k)).cloned().unwrap_or_default();
                        return Err(Failure::mismatch(format!("{}: column {:?} logged as {:?} reads {:?} (columns present: {:?})", stage, col, exp.get(&col), got.get(&col), got.keys().collect::<Vec<_>>())).tag("rows_cells"));
                    }
                    Ok(())
                };
                compare("row API", &eb.tables["t"])?;
                let bytes = eb.serialize();
                let back = EventBuffer::deserialize(&bytes).map_err(|e| Failure::mismatch(format!("own event buffer does not decode: {}", e)))?;
                match back.tables.get("t") {
                    Some(tb) => compare("after the wire round trip", tb)?,
                    None if rows.is_empty() => {}
                    None => return Err(Failure::mismatch("table missing after the wire round trip".to_string()).tag("rows_table")),
                }
                if rows.len() >= 3 {
                    env.nontrivial(&format!("{:?}{:?}", strs, rows));
                }
            }
        }
        Ok(())
    };
    // the codecs run in the calling thread: a panic is a failure of the call
    let before = db::panics().len();
    let r = std::panic::catch_unwind(std::panic::AssertUnwindSafe(run));
    if let Ok(Ok(())) = &r {
        env.sample(|| {
            let text = serde_json::to_string(case).unwrap_or_default();
            let short: String = text.chars().take(600).collect();
            json!({ "case": short, "truncated": text.len() > 600, "outcome": "round trip reproduced every value" })
        });
    }
    match r {
        Ok(r) => r,
        Err(_) => {
            let p = db::panics().get(before).cloned();
            let mut f = Failure::mismatch(format!("codec panicked: {}", p.as_ref().map(|p| p.short()).unwrap_or_default()));
            f.kind = "panic".into();
            f.panic = p;
            Err(f.tag("codec_panic"))
        }
    }
}

pub fn shard(ctx: &mut Ctx) {
    let n = ctx.tier.pick(800_000, 20_000_000);
    let n = ctx.share(n);
    ctx.drive("codecs", case_strategy(), n, check);
}

pub fn replay(_sub: &str, case: &Value, env: &mut CaseEnv) -> Result<(), Failure> {
    let c: Case = serde_json::from_value(case.clone()).map_err(bad_case)?;
    check(&c, env)
}
