//! Histories over an on-disk database: ingest / force_flush / evict_cache / restart, interpreted
//! against the real database and an in-memory model of what was acknowledged.

use std::collections::{BTreeMap, BTreeSet};

use proptest::collection::vec;
use proptest::prelude::*;
use serde::{Deserialize, Serialize};

use crate::db::{self, Db, DbOpts, QOut};
use crate::gen::{self, ColGenOpts, ColType};
use crate::model::{Batch, Cell, ColRep, DbModel, Request, TableModel};
use crate::runner::{pick_idx, Failure};

#[derive(Clone, Debug, PartialEq, Serialize, Deserialize)]
pub enum Op {
    Ingest(Request),
    Flush,
    Evict,
    Restart,
}

impl Op {
    pub fn kind(&self) -> &'static str {
        match self {
            Op::Ingest(_) => "ingest",
            Op::Flush => "flush",
            Op::Evict => "evict",
            Op::Restart => "restart",
        }
    }
}

#[derive(Clone, Debug, Serialize, Deserialize)]
pub struct History {
    pub opts: DbOpts,
    pub ops: Vec<Op>,
}

impl History {
    pub fn describe(&self) -> String {
        let ops: Vec<String> = self
            .ops
            .iter()
            .map(|o| match o {
                Op::Ingest(r) => format!(
                    "ingest({})",
                    r.tables.iter().map(|(t, b)| format!("{}:{}x{}", t, b.rows, b.cols.len())).collect::<Vec<_>>().join(",")
                ),
                o => o.kind().to_string(),
            })
            .collect();
        format!(
            "pcf={} mps={} wal_files={} wal_bytes={} io={} wfc={} lz4={} thr={} bs={} :: {}",
            self.opts.partition_combine_factor,
            self.opts.max_partition_size_bytes,
            self.opts.max_wal_files,
            self.opts.max_wal_size_bytes,
            self.opts.io_threads,
            self.opts.wal_flush_compaction_threads,
            self.opts.mem_lz4,
            self.opts.threads,
            self.opts.batch_size,
            ops.join(" ")
        )
    }
}

/// How columns are named and typed in generated batches.
#[derive(Clone, Debug)]
pub struct Schema {
    pub tables: Vec<String>,
    /// column name pool; a column's type is fixed per name (type-stable columns)
    pub columns: Vec<(String, ColType)>,
    /// probability (0..=100) that a pool column is mentioned in a batch
    pub mention_pct: u8,
    pub max_rows: usize,
    pub nullable: bool,
    /// allow hex-like / long strings etc. (full §3.1 classes) or small simple values
    pub rich_values: bool,
}

impl Schema {
    pub fn simple() -> Schema {
        Schema {
            tables: vec!["t0".into(), "t1".into()],
            columns: vec![
                ("a".into(), ColType::Int),
                ("b".into(), ColType::Float),
                ("c".into(), ColType::Str),
                ("d".into(), ColType::Int),
                ("e".into(), ColType::Str),
            ],
            mention_pct: 70,
            max_rows: 9,
            nullable: true,
            rich_values: true,
        }
    }
}

fn column_cells(ty: ColType, rows: usize, schema: &Schema) -> BoxedStrategy<Vec<Cell>> {
    if schema.rich_values {
        let o = ColGenOpts { allow_extreme_ints: false, allow_nan: false, ascii_only: false, nullable: schema.nullable };
        gen::typed_column(ty, rows, &o).prop_map(|g| g.cells).boxed()
    } else {
        let vals: BoxedStrategy<Vec<Cell>> = match ty {
            ColType::Int => vec((-50i64..1000).prop_map(Cell::Int), rows).boxed(),
            ColType::Float => vec((-100i32..100).prop_map(|x| Cell::float(x as f64 / 4.0)), rows).boxed(),
            ColType::Str => vec("[a-d]{0,3}".prop_map(Cell::Str), rows).boxed(),
        };
        if schema.nullable {
            (vals, gen::null_pattern(rows))
                .prop_map(|(v, (_, m))| v.into_iter().zip(m).map(|(c, n)| if n { Cell::Null } else { c }).collect())
                .boxed()
        } else {
            vals
        }
    }
}

pub fn batch(schema: Schema) -> BoxedStrategy<Batch> {
    (1usize..=schema.max_rows, vec(0u8..100, schema.columns.len()), any::<u8>())
        .prop_flat_map(move |(rows, mention, variant)| {
            let mut cols: Vec<(String, BoxedStrategy<Vec<Cell>>)> = vec![];
            for (i, (name, ty)) in schema.columns.iter().enumerate() {
                if mention[i] < schema.mention_pct {
                    cols.push((name.clone(), column_cells(*ty, rows, &schema)));
                }
            }
            if cols.is_empty() {
                let (name, ty) = &schema.columns[0];
                cols.push((name.clone(), column_cells(*ty, rows, &schema)));
            }
            let names: Vec<String> = cols.iter().map(|c| c.0.clone()).collect();
            let strategies: Vec<BoxedStrategy<Vec<Cell>>> = cols.into_iter().map(|c| c.1).collect();
            strategies.prop_map(move |cells| {
                let mut m = BTreeMap::new();
                for (i, (name, c)) in names.iter().zip(cells.into_iter()).enumerate() {
                    let v = variant.wrapping_add(i as u8 * 5);
                    match ColRep::for_cells(&c, v) {
                        Some(rep) => {
                            m.insert(name.clone(), rep);
                        }
                        None => {
                            // all NULL and "absent": leave the column out of this batch
                        }
                    }
                }
                if m.is_empty() {
                    m.insert(names[0].clone(), ColRep::Empty);
                }
                Batch { rows, cols: m }
            })
        })
        .boxed()
}

pub fn request(schema: Schema) -> BoxedStrategy<Request> {
    let tables = schema.tables.clone();
    let nt = tables.len();
    (vec(any::<bool>(), nt), any::<u16>(), vec(batch(schema), nt))
        .prop_map(move |(pick, first, batches)| {
            let mut m = BTreeMap::new();
            for (i, b) in batches.into_iter().enumerate() {
                if pick[i] || i == pick_idx(first, nt) {
                    m.insert(tables[i].clone(), b);
                }
            }
            Request { tables: m }
        })
        .boxed()
}

#[derive(Clone, Debug)]
pub struct OpWeights {
    pub ingest: u32,
    pub flush: u32,
    pub evict: u32,
    pub restart: u32,
}

pub fn ops(schema: Schema, w: OpWeights, len: std::ops::Range<usize>) -> BoxedStrategy<Vec<Op>> {
    let mut choices: Vec<(u32, BoxedStrategy<Op>)> = vec![(w.ingest.max(1), request(schema).prop_map(Op::Ingest).boxed())];
    if w.flush > 0 {
        choices.push((w.flush, Just(Op::Flush).boxed()));
    }
    if w.evict > 0 {
        choices.push((w.evict, Just(Op::Evict).boxed()));
    }
    if w.restart > 0 {
        choices.push((w.restart, Just(Op::Restart).boxed()));
    }
    vec(proptest::strategy::Union::new_weighted(choices), len).boxed()
}

// ---------------------------------------------------------------------------------------------
// Content comparison
// ---------------------------------------------------------------------------------------------

pub fn compare_table(model: &TableModel, out: &QOut, names: &[String], stage: &str, sql: &str) -> Result<(), Failure> {
    if out.colnames != names {
        return Err(Failure::mismatch(format!("{}: `{}` colnames {:?}, expected {:?}", stage, sql, out.colnames, names)).tag("colnames"));
    }
    for (view, rows) in [("rows", out.rows.clone()), ("columns", Some(out.rows_from_columns()))] {
        let rows = match rows {
            Some(r) => r,
            None => continue,
        };
        if view == "columns" && out.columns.len() != names.len() {
            return Err(Failure::mismatch(format!("{}: `{}` column view has {} columns, expected {}", stage, sql, out.columns.len(), names.len())).tag("column_count"));
        }
        if rows.len() != model.rows {
            return Err(Failure::mismatch(format!("{}: `{}` {} view has {} rows, the model has {}", stage, sql, view, rows.len(), model.rows)).tag("row_count"));
        }
        for (ri, row) in rows.iter().enumerate() {
            for (ci, name) in names.iter().enumerate() {
                let exp = &model.cols[name][ri];
                let got = &row[ci];
                if exp != got {
                    return Err(Failure::mismatch(format!(
                        "{}: `{}` {} view row {} column {:?}: got {}, expected {}",
                        stage, sql, view, ri, name, got.short(), exp.short()
                    ))
                    .tag("cell"));
                }
            }
        }
    }
    Ok(())
}

pub fn quote(name: &str) -> String {
    format!("\"{}\"", name)
}

/// Reads every table of the model back (SELECT * and an explicit column list) and compares.
pub fn check_content(dbh: &Db, model: &DbModel, stage: &str) -> Result<(), Failure> {
    for (tname, tm) in &model.tables {
        let names: Vec<String> = tm.cols.keys().cloned().collect();
        let list = names.iter().map(|n| quote(n)).collect::<Vec<_>>().join(", ");
        for sql in [format!("SELECT * FROM {}", quote(tname)), format!("SELECT {} FROM {}", list, quote(tname))] {
            let r = dbh.query(&sql).map_err(|f| Failure::from_fault(&f, &format!("{}: `{}`", stage, sql)))?;
            match r {
                Ok(out) => compare_table(tm, &out, &names, stage, &sql)?,
                Err(e) => {
                    std::thread::sleep(std::time::Duration::from_millis(30));
                    if let Some(p) = db::db_panics().first() {
                        return Err(Failure::db_panic(p, &format!("{}: `{}` failed: {}", stage, sql, e.short())));
                    }
                    return Err(Failure::mismatch(format!("{}: `{}` failed: {}", stage, sql, e.short())).tag("query_error"));
                }
            }
        }
    }
    Ok(())
}

/// Names listed by a single-string-column query, as a sorted multiset.
pub fn string_column(dbh: &Db, sql: &str, stage: &str) -> Result<Vec<String>, Failure> {
    let r = dbh.query(sql).map_err(|f| Failure::from_fault(&f, &format!("{}: `{}`", stage, sql)))?;
    match r {
        Ok(out) => {
            let mut v: Vec<String> = out
                .rows_any()
                .into_iter()
                .map(|r| match r.into_iter().next() {
                    Some(Cell::Str(s)) => s,
                    Some(c) => format!("<{}>", c.short()),
                    None => "<missing>".into(),
                })
                .collect();
            v.sort();
            Ok(v)
        }
        Err(e) => Err(Failure::mismatch(format!("{}: `{}` failed: {}", stage, sql, e.short())).tag("query_error")),
    }
}

/// The catalogue: tables (from _meta_tables) and per table the column names (from _meta_columns_<t>).
pub fn check_catalogue(dbh: &Db, model: &DbModel, stage: &str) -> Result<(), Failure> {
    let tables = string_column(dbh, "SELECT name FROM _meta_tables", stage)?;
    let user_tables: Vec<String> = tables.iter().filter(|t| !t.starts_with("_meta_")).cloned().collect();
    let want: Vec<String> = model.tables.keys().cloned().collect::<BTreeSet<_>>().into_iter().collect();
    let mut want_sorted = want.clone();
    want_sorted.sort();
    if user_tables != want_sorted {
        return Err(Failure::mismatch(format!("{}: _meta_tables lists {:?}, expected each of {:?} exactly once", stage, user_tables, want_sorted)).tag("table_list"));
    }
    for t in &want {
        let meta = format!("_meta_columns_{}", t);
        if tables.iter().filter(|x| **x == meta).count() != 1 {
            return Err(Failure::mismatch(format!("{}: _meta_tables lists {:?} {} times", stage, meta, tables.iter().filter(|x| **x == meta).count())).tag("table_list"));
        }
        let cols = string_column(dbh, &format!("SELECT column_name FROM {}", quote(&meta)), stage)?;
        let mut want_cols: Vec<String> = model.tables[t].cols.keys().cloned().collect();
        want_cols.sort();
        if cols != want_cols {
            return Err(Failure::mismatch(format!("{}: {} lists {:?}, expected each of {:?} exactly once", stage, meta, cols, want_cols)).tag("column_list"));
        }
    }
    Ok(())
}

// ---------------------------------------------------------------------------------------------
// Interpreter
// ---------------------------------------------------------------------------------------------

pub struct Run<'a> {
    pub dbh: Option<Db>,
    pub dir: &'a std::path::Path,
    pub opts: DbOpts,
    pub model: DbModel,
    /// number of restarts done so far
    pub restarts: usize,
}

impl<'a> Run<'a> {
    pub fn start(opts: &DbOpts, dir: &'a std::path::Path) -> Result<Run<'a>, Failure> {
        let dbh = Db::open(opts, Some(dir)).map_err(|f| Failure::from_fault(&f, "open"))?;
        Ok(Run { dbh: Some(dbh), dir, opts: opts.clone(), model: DbModel::default(), restarts: 0 })
    }

    pub fn db(&self) -> &Db {
        self.dbh.as_ref().unwrap()
    }

    pub fn apply(&mut self, i: usize, op: &Op) -> Result<(), Failure> {
        let ctx = format!("step {} ({})", i, op.kind());
        match op {
            Op::Ingest(req) => {
                self.db().ingest(req.to_event_buffer()).map_err(|f| Failure::from_fault(&f, &ctx))?;
                // acknowledged: now part of the model
                self.model.apply(req);
            }
            Op::Flush => self.db().flush().map_err(|f| Failure::from_fault(&f, &format!("{}: force_flush", ctx)))?,
            Op::Evict => {
                self.db().evict().map_err(|f| Failure::from_fault(&f, &ctx))?;
            }
            Op::Restart => {
                let old = self.dbh.take().unwrap();
                old.close().map_err(|f| Failure::from_fault(&f, &format!("{}: close", ctx)))?;
                let dbh = Db::open(&self.opts, Some(self.dir)).map_err(|f| Failure::from_fault(&f, &format!("{}: reopen", ctx)))?;
                self.dbh = Some(dbh);
                self.restarts += 1;
            }
        }
        if let Some(p) = db::db_panics().first() {
            return Err(Failure::db_panic(p, &ctx));
        }
        Ok(())
    }

    pub fn finish(mut self) -> Result<(), Failure> {
        if let Some(d) = self.dbh.take() {
            d.close().map_err(|f| Failure::from_fault(&f, "close"))?;
        }
        Ok(())
    }
}
