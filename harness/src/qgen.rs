//! Tables and queries for the query-level properties (C02–C06): a logical table with a unique dense
//! `id` column plus typed columns, realised under a physical layout; query generators that draw
//! constants relative to the column contents.

use std::collections::BTreeMap;

use proptest::collection::vec;
use proptest::prelude::*;
use serde::{Deserialize, Serialize};

use crate::db::{self, Db};
use crate::eval::{bin, col, AggKind, BinOp, Expr, Query, SelectItem};
use crate::gen::{self, ColGenOpts, ColType, Layout, LogicalTable, Storage};
use serde_json::Value;
use crate::model::{Cell, FBits, Request};
use crate::runner::{pick_idx, Failure};

#[derive(Clone, Debug)]
pub struct TableOpts {
    pub max_rows: usize,
    /// integer columns may contain values near the i64 edges (C06)
    pub wide_ints: bool,
    pub nullable: bool,
    /// include a column that only exists from some row on
    pub late_column: bool,
}

impl Default for TableOpts {
    fn default() -> Self {
        TableOpts { max_rows: 60, wide_ints: false, nullable: true, late_column: true }
    }
}

fn small_int_values(n: usize) -> BoxedStrategy<(String, Vec<i64>)> {
    prop_oneof![
        3 => vec(0i64..6, n).prop_map(|v| ("int:tiny_domain".to_string(), v)),
        2 => vec(-3i64..4, n).prop_map(|v| ("int:tiny_signed".to_string(), v)),
        2 => vec(0i64..=255, n).prop_map(|v| ("int:u8".to_string(), v)),
        2 => vec(1000i64..1256, n).prop_map(|v| ("int:u8_offset".to_string(), v)),
        1 => vec(-40000i64..40000, n).prop_map(|v| ("int:u16_offset".to_string(), v)),
        1 => vec(0i64..100_000, n).prop_map(|v| ("int:u32".to_string(), v)),
        1 => vec(prop_oneof![Just(0i64), Just(100_000i64), Just(70_000i64)], n).prop_map(|v| ("int:wide_range_few_values".to_string(), v)),
        1 => vec((1i64 << 40)..(1i64 << 40) + 50, n).prop_map(|v| ("int:big_offset".to_string(), v)),
        1 => vec(-(1i64 << 45)..(1i64 << 45), n).prop_map(|v| ("int:i64".to_string(), v)),
        1 => (0i64..1_000_000, vec(1i64..5, n)).prop_map(|(s, steps)| {
            let mut cur = s;
            ("int:increasing_run".to_string(), steps.into_iter().map(|d| { cur += d; cur }).collect())
        }),
        1 => vec(0i64..2_000_000_000, n).prop_map(|v| ("int:timestamps".to_string(), v)),
        // narrow windows at the two ends of i64 (offset encodings whose base is next to the type's limits;
        // i64::MAX itself is the engine's NULL marker and is not a storable value)
        1 => (any::<bool>(), vec(0i64..200, n)).prop_map(|(top, v)| ("int:i64_edge_window".to_string(), v.into_iter().map(|x| if top { i64::MAX - 1 - x } else { i64::MIN + 1 + x }).collect())),
    ]
    .boxed()
}

fn float_values(n: usize) -> BoxedStrategy<(String, Vec<f64>)> {
    prop_oneof![
        3 => vec((-20i32..20).prop_map(|x| x as f64 / 2.0), n).prop_map(|v| ("float:halves".to_string(), v)),
        2 => vec((-1000i32..1000).prop_map(|x| x as f64 / 8.0), n).prop_map(|v| ("float:f32_exact".to_string(), v)),
        2 => vec((-1_000_000i64..1_000_000).prop_map(|x| x as f64 / 100.0), n).prop_map(|v| ("float:cents".to_string(), v)),
        1 => vec(prop_oneof![Just(0.0f64), Just(-0.0), Just(1.0), Just(-1.0), Just(0.1), Just(1e300), Just(-1e300), Just(5e-324), Just(f64::MAX), Just(f64::MIN_POSITIVE)], n).prop_map(|v| ("float:special".to_string(), v)),
    ]
    .boxed()
}

fn string_values(n: usize) -> BoxedStrategy<(String, Vec<String>)> {
    prop_oneof![
        3 => (vec("[a-c]{0,3}", 1..5), vec(any::<u16>(), n)).prop_map(|(pool, idx)| ("str:low_cardinality".to_string(), idx.into_iter().map(|i| pool[pick_idx(i, pool.len())].clone()).collect())),
        3 => vec("[a-d]{1,4}", n).prop_map(|v| ("str:words".to_string(), v)),
        1 => vec("[a-zA-Z0-9 _%]{0,8}", n).prop_map(|v| ("str:mixed_chars".to_string(), v)),
        1 => vec("[0-9a-f]{8}", n).prop_map(|v| ("str:lower_hex".to_string(), v)),
        1 => vec(prop_oneof![Just(0usize), Just(1), Just(254), Just(255), Just(256)], n).prop_map(|l| ("str:length_boundary".to_string(), l.into_iter().map(gen::long_string).collect())),
    ]
    .boxed()
}

fn qcolumn(ty: ColType, n: usize, nullable: bool, wide: bool) -> BoxedStrategy<gen::GenCol> {
    let vals: BoxedStrategy<(String, Vec<Cell>)> = match ty {
        ColType::Int if wide => gen::int_values(n, false).prop_map(|(c, v)| (c, v.into_iter().map(Cell::Int).collect())).boxed(),
        ColType::Int => small_int_values(n).prop_map(|(c, v)| (c, v.into_iter().map(Cell::Int).collect())).boxed(),
        ColType::Float => float_values(n).prop_map(|(c, v)| (c, v.into_iter().map(Cell::float).collect())).boxed(),
        ColType::Str => string_values(n).prop_map(|(c, v)| (c, v.into_iter().map(Cell::Str).collect())).boxed(),
    };
    let nulls = if nullable {
        prop_oneof![1 => Just(("nulls:none".to_string(), vec![false; n])).boxed(), 1 => gen::null_pattern(n)].boxed()
    } else {
        Just(("nulls:none".to_string(), vec![false; n])).boxed()
    };
    (vals, nulls)
        .prop_map(|((class, cells), (np, mask))| gen::GenCol {
            class,
            nulls: np,
            cells: cells.into_iter().zip(mask).map(|(c, m)| if m { Cell::Null } else { c }).collect(),
        })
        .boxed()
}

/// Table with `id` (0..n), ints i0,i1, float f0, strings s0,s1 (some optional), optional `late`.
pub fn query_table(o: TableOpts) -> BoxedStrategy<LogicalTable> {
    gen::row_count(o.max_rows)
        .prop_flat_map(move |n| {
            let nullable = o.nullable;
            let wide = o.wide_ints;
            let late = o.late_column;
            (
                qcolumn(ColType::Int, n, nullable, wide),
                proptest::option::weighted(0.6, qcolumn(ColType::Int, n, nullable, wide)),
                proptest::option::weighted(0.7, qcolumn(ColType::Float, n, nullable, false)),
                proptest::option::weighted(0.8, qcolumn(ColType::Str, n, nullable, false)),
                proptest::option::weighted(0.3, qcolumn(ColType::Str, n, nullable, false)),
                proptest::option::weighted(if late { 0.3 } else { 0.000001 }, (qcolumn(ColType::Int, n, false, false), any::<u16>())),
            )
                .prop_map(move |(i0, i1, f0, s0, s1, late)| {
                    let mut cols = BTreeMap::new();
                    let mut classes = vec![];
                    cols.insert("id".to_string(), (ColType::Int, (0..n as i64).map(Cell::Int).collect::<Vec<_>>()));
                    let mut add = |name: &str, ty: ColType, gc: gen::GenCol| {
                        classes.push(gc.class.clone());
                        classes.push(gc.nulls.clone());
                        cols.insert(name.to_string(), (ty, gc.cells));
                    };
                    add("i0", ColType::Int, i0);
                    if let Some(c) = i1 {
                        add("i1", ColType::Int, c);
                    }
                    if let Some(c) = f0 {
                        add("f0", ColType::Float, c);
                    }
                    if let Some(c) = s0 {
                        add("s0", ColType::Str, c);
                    }
                    if let Some(c) = s1 {
                        add("s1", ColType::Str, c);
                    }
                    if let Some((mut c, at)) = late {
                        // NULL for all rows before `start`: absent from the partitions those rows land in
                        let start = pick_idx(at, n);
                        for x in c.cells.iter_mut().take(start) {
                            *x = Cell::Null;
                        }
                        c.nulls = "nulls:late_column".into();
                        add("late", ColType::Int, c);
                    }
                    LogicalTable { rows: n, cols, classes }
                })
        })
        .boxed()
}

/// Opens a database and loads `t` according to `layout`. Returns the handle (and the directory guard).
pub fn realise(t: &LogicalTable, layout: &Layout, table_name: &str) -> Result<(Db, tempfile::TempDir), Failure> {
    let dir = db::temp_dir("q");
    let on_disk = layout.storage != Storage::Memory;
    let mut dbh = Db::open(&layout.opts, if on_disk { Some(dir.path()) } else { None })
        .map_err(|f| Failure::from_fault(&f, "open"))?;
    let batches = layout.batches(t);
    for (i, b) in batches.iter().enumerate() {
        dbh.ingest(Request::single(table_name, b.clone()).to_event_buffer())
            .map_err(|f| Failure::from_fault(&f, &format!("ingest batch {}", i)))?;
        if layout.flush_after.get(i).copied().unwrap_or(false) {
            dbh.flush().map_err(|f| Failure::from_fault(&f, "force_flush"))?;
        }
    }
    match layout.storage {
        Storage::Memory | Storage::Disk => {}
        Storage::DiskEvicted => {
            dbh.flush().map_err(|f| Failure::from_fault(&f, "force_flush"))?;
            dbh.evict().map_err(|f| Failure::from_fault(&f, "evict_cache"))?;
        }
        Storage::DiskReopened => {
            dbh.flush().map_err(|f| Failure::from_fault(&f, "force_flush"))?;
            dbh.close().map_err(|f| Failure::from_fault(&f, "close"))?;
            dbh = Db::open(&layout.opts, Some(dir.path())).map_err(|f| Failure::from_fault(&f, "reopen"))?;
        }
    }
    Ok((dbh, dir))
}

// ---------------------------------------------------------------------------------------------
// Column summaries and constants
// ---------------------------------------------------------------------------------------------

#[derive(Clone, Debug)]
pub struct ColInfo {
    pub name: String,
    pub ty: ColType,
    pub nullable: bool,
    pub values: Vec<Cell>, // distinct non-null values, sorted
}

pub fn col_infos(t: &LogicalTable) -> Vec<ColInfo> {
    t.cols
        .iter()
        .map(|(name, (ty, cells))| {
            let mut values: Vec<Cell> = cells.iter().filter(|c| !c.is_null()).cloned().collect();
            values.sort_by(crate::eval::order_cells);
            values.dedup();
            ColInfo { name: name.clone(), ty: *ty, nullable: cells.iter().any(|c| c.is_null()), values }
        })
        .collect()
}

/// Constant for comparisons against `c`, chosen relative to its contents. `sel` picks the class.
pub fn constant_for(c: &ColInfo, sel: u8, pick: u16, as_float: bool) -> (Expr, &'static str) {
    let v = if c.values.is_empty() { None } else { Some(&c.values[pick_idx(pick, c.values.len())]) };
    match c.ty {
        ColType::Int => {
            let x = match v {
                Some(Cell::Int(x)) => *x,
                _ => 0,
            };
            let (lo, hi) = match (c.values.first(), c.values.last()) {
                (Some(Cell::Int(a)), Some(Cell::Int(b))) => (*a, *b),
                _ => (0, 0),
            };
            if as_float {
                return match sel % 4 {
                    0 => (Expr::Float(FBits::of(x as f64)), "const:float_equal_to_int"),
                    1 => (Expr::Float(FBits::of(x as f64 + 0.5)), "const:fractional"),
                    2 => (Expr::Float(FBits::of(lo as f64 - 0.5)), "const:fractional_below_min"),
                    _ => (Expr::Float(FBits::of(hi as f64 + 0.25)), "const:fractional_above_max"),
                };
            }
            let safe = |y: i128| y.clamp(i64::MIN as i128 + 1, i64::MAX as i128 - 1) as i64;
            match sel % 10 {
                0 | 1 => (Expr::Int(x), "const:present_value"),
                2 => (Expr::Int(safe(x as i128 + 1)), "const:value_plus_1"),
                3 => (Expr::Int(safe(lo as i128 - 1)), "const:min_minus_1"),
                4 => (Expr::Int(safe(hi as i128 + 1)), "const:max_plus_1"),
                5 => (Expr::Int(lo), "const:min"),
                6 => (Expr::Int(hi), "const:max"),
                7 => (Expr::Int(if pick % 2 == 0 { 1_000_000_000_000 } else { -1_000_000_000_000 }), "const:far_outside"),
                8 => (Expr::Int(if pick % 3 == 0 { 300 } else if pick % 3 == 1 { -1 } else { 70_000 }), "const:outside_narrow_encoding"),
                _ => (Expr::Int(if pick % 2 == 0 { i64::MIN + 1 } else { i64::MAX - 1 }), "const:i64_edge"),
            }
        }
        ColType::Float => {
            let x = match v {
                Some(Cell::Float(f)) => f.get(),
                _ => 0.0,
            };
            if as_float || true {
                match sel % 6 {
                    0 | 1 => (Expr::Float(FBits::of(x)), "const:present_value"),
                    2 => (Expr::Float(FBits::of(x + 0.25)), "const:near_value"),
                    3 => (Expr::Float(FBits::of(-1e12)), "const:far_below"),
                    4 => (Expr::Float(FBits::of(1e12)), "const:far_above"),
                    _ => (Expr::Int(x.max(-1e15).min(1e15) as i64), "const:int_vs_float_column"),
                }
            } else {
                unreachable!()
            }
        }
        ColType::Str => {
            let x = match v {
                Some(Cell::Str(s)) => s.clone(),
                _ => String::new(),
            };
            match sel % 6 {
                0 | 1 => (Expr::Str(x), "const:present_string"),
                2 => (Expr::Str(format!("{}a", x)), "const:absent_between"),
                3 => (Expr::Str(String::new()), "const:before_first"),
                4 => (Expr::Str("~~~".to_string()), "const:after_last"),
                _ => {
                    let p: String = x.chars().take(x.chars().count() / 2).collect();
                    (Expr::Str(p), "const:prefix")
                }
            }
        }
    }
}

#[derive(Clone, Debug, Serialize, Deserialize)]
pub struct GenQuery {
    pub q: Query,
    pub labels: Vec<String>,
}

fn cmp_op() -> BoxedStrategy<BinOp> {
    prop_oneof![Just(BinOp::Eq), Just(BinOp::Ne), Just(BinOp::Lt), Just(BinOp::Le), Just(BinOp::Gt), Just(BinOp::Ge)].boxed()
}

/// One atomic predicate over the table's columns.
pub fn atom(infos: Vec<ColInfo>) -> BoxedStrategy<(Expr, Vec<String>)> {
    let n = infos.len();
    let infos2 = infos.clone();
    let infos3 = infos.clone();
    let infos4 = infos.clone();
    let infos5 = infos.clone();
    prop_oneof![
        // column vs constant
        6 => (any::<u16>(), cmp_op(), any::<u8>(), any::<u16>(), 0u8..8, any::<bool>()).prop_map(move |(ci, op, sel, pick, fl, flip)| {
            let c = &infos[pick_idx(ci, n)];
            let as_float = c.ty == ColType::Int && fl == 0;
            let (k, label) = constant_for(c, sel, pick, as_float);
            let e = if flip { bin(flip_op(op), k, col(&c.name)) } else { bin(op, col(&c.name), k) };
            (e, vec![label.to_string(), if flip { "flipped".to_string() } else { "unflipped".to_string() }, format!("cmp:{:?}:{:?}", c.ty, op), if c.nullable { "operand:nullable".into() } else { "operand:not_null".into() }])
        }),
        // column vs column (same type class)
        2 => (any::<u16>(), any::<u16>(), cmp_op()).prop_map(move |(a, b, op)| {
            let ca = &infos2[pick_idx(a, n)];
            let same: Vec<&ColInfo> = infos2.iter().filter(|c| (c.ty == ColType::Str) == (ca.ty == ColType::Str)).collect();
            let cb = same[pick_idx(b, same.len())];
            (bin(op, col(&ca.name), col(&cb.name)), vec![format!("colcol:{:?}:{:?}", ca.ty, cb.ty)])
        }),
        // IS [NOT] NULL
        2 => (any::<u16>(), any::<bool>()).prop_map(move |(ci, neg)| {
            let c = &infos3[pick_idx(ci, n)];
            let e = if neg { Expr::IsNotNull(Box::new(col(&c.name))) } else { Expr::IsNull(Box::new(col(&c.name))) };
            (e, vec!["isnull".to_string()])
        }),
        // absent column
        1 => (cmp_op(), -5i64..5, any::<bool>()).prop_map(|(op, k, isnull)| {
            if isnull {
                (Expr::IsNull(Box::new(col("no_such_col"))), vec!["absent_column:isnull".to_string()])
            } else {
                (bin(op, col("no_such_col"), Expr::Int(k)), vec!["absent_column:cmp".to_string()])
            }
        }),
        // LIKE / NOT LIKE
        2 => (any::<u16>(), any::<u16>(), 0u8..8, any::<bool>()).prop_map(move |(ci, pick, shape, neg)| {
            let strs: Vec<&ColInfo> = infos4.iter().filter(|c| c.ty == ColType::Str).collect();
            if strs.is_empty() {
                return (Expr::IsNull(Box::new(col("id"))), vec!["isnull".to_string()]);
            }
            let c = strs[pick_idx(ci, strs.len())];
            let v = match c.values.get(pick_idx(pick, c.values.len().max(1))) { Some(Cell::Str(s)) => s.clone(), _ => "a".into() };
            let chars: Vec<char> = v.chars().filter(|c| *c != '%' && *c != '_').collect();
            let head: String = chars.iter().take(1).collect();
            let tail: String = chars.iter().rev().take(1).collect();
            let (pat, label) = match shape {
                0 => (format!("{}%", head), "like:prefix"),
                1 => (format!("%{}", tail), "like:suffix"),
                2 => (format!("%{}%", head), "like:infix"),
                3 => (chars.iter().collect::<String>(), "like:exact"),
                4 => ("%".to_string(), "like:lone_percent"),
                5 => (format!("_{}", chars.iter().skip(1).collect::<String>()), "like:leading_underscore"),
                6 => (format!("{}_%", head), "like:underscore_percent"),
                _ => (format!("{}%{}", head, tail), "like:head_tail"),
            };
            (Expr::Like(Box::new(col(&c.name)), pat, neg), vec![label.to_string(), if c.nullable { "like:nullable".into() } else { "like:not_null".into() }])
        }),
        // regex
        1 => (any::<u16>(), 0u8..4).prop_map(move |(ci, shape)| {
            let strs: Vec<&ColInfo> = infos5.iter().filter(|c| c.ty == ColType::Str).collect();
            if strs.is_empty() {
                return (Expr::IsNotNull(Box::new(col("id"))), vec!["isnull".to_string()]);
            }
            let c = strs[pick_idx(ci, strs.len())];
            let pat = match shape { 0 => "^a", 1 => "b$", 2 => "[ab]{2}", _ => "c" };
            (Expr::Regex(Box::new(col(&c.name)), pat.to_string()), vec!["regex".to_string(), if c.nullable { "regex:nullable".into() } else { "regex:not_null".into() }])
        }),
    ]
    .boxed()
}

pub fn flip_op(op: BinOp) -> BinOp {
    match op {
        BinOp::Lt => BinOp::Gt,
        BinOp::Le => BinOp::Ge,
        BinOp::Gt => BinOp::Lt,
        BinOp::Ge => BinOp::Le,
        o => o,
    }
}

/// Predicate tree of depth <= 3.
pub fn predicate(infos: Vec<ColInfo>) -> BoxedStrategy<(Expr, Vec<String>)> {
    let leaf = atom(infos);
    let tree = leaf.clone().prop_recursive(3, 8, 2, |inner| {
        prop_oneof![
            2 => (inner.clone(), inner.clone()).prop_map(|((a, mut la), (b, lb))| { la.extend(lb); la.push("tree:and".into()); (bin(BinOp::And, a, b), la) }),
            2 => (inner.clone(), inner.clone()).prop_map(|((a, mut la), (b, lb))| { la.extend(lb); la.push("tree:or".into()); (bin(BinOp::Or, a, b), la) }),
            1 => inner.clone().prop_map(|(a, mut la)| { la.push("tree:not".into()); (Expr::Not(Box::new(a)), la) }),
        ]
    });
    prop_oneof![2 => leaf, 3 => tree].boxed()
}

pub fn select_cols(names: &[&str]) -> Vec<SelectItem> {
    names.iter().map(|n| SelectItem { expr: col(n), alias: None }).collect()
}

pub fn agg(kind: AggKind, e: Expr) -> Expr {
    Expr::Agg(kind, Box::new(e))
}

/// Hand-written regression case: explicit SQL with the expected ids written down (independent of the
/// generators' known-finding exclusions).
#[derive(Clone, Debug, Serialize, Deserialize)]
pub struct SqlExpect {
    pub table: LogicalTable,
    pub layout: Layout,
    pub sql: String,
    #[serde(default)]
    pub expect_ids: Vec<i64>,
    /// when present, the full result is compared with these rows as a multiset (instead of `expect_ids`)
    #[serde(default)]
    pub expect_rows: Option<Vec<Vec<Cell>>>,
    /// set for reproducers of a known finding: the failure carries the tag `sql_expect:<id>`
    #[serde(default)]
    pub kf: Option<String>,
}

pub fn check_sql_expect(c: &SqlExpect) -> Result<(), Failure> {
    check_sql_expect_inner(c).map_err(|f| match &c.kf {
        Some(id) => f.tag(format!("sql_expect:{}", id)),
        None => f,
    })
}

fn check_sql_expect_inner(c: &SqlExpect) -> Result<(), Failure> {
    let (dbh, _dir) = realise(&c.table, &c.layout, "t")?;
    let res = dbh.query(&c.sql).map_err(|f| Failure::from_fault(&f, &format!("`{}`", c.sql)))?;
    match res {
        Ok(out) if c.expect_rows.is_some() => {
            let mut got = out.rows_any();
            let mut want = c.expect_rows.clone().unwrap();
            got.sort();
            want.sort();
            if got != want {
                return Err(Failure::mismatch(format!("`{}`: rows (sorted) {:?}, expected {:?}", c.sql, got, want)));
            }
            if out.rows.is_some() {
                let mut cv = out.rows_from_columns();
                cv.sort();
                if cv != want {
                    return Err(Failure::mismatch(format!("`{}`: column view (sorted) {:?}, expected {:?}", c.sql, cv, want)));
                }
            }
            Ok(())
        }
        Ok(out) => {
            let got: Vec<Cell> = out.rows_any().into_iter().map(|r| r.into_iter().next().unwrap_or(Cell::Null)).collect();
            let want: Vec<Cell> = c.expect_ids.iter().map(|i| Cell::Int(*i)).collect();
            if got != want {
                return Err(Failure::mismatch(format!("`{}`: kept ids {:?}, expected {:?}", c.sql, got, want)));
            }
            Ok(())
        }
        Err(e) => Err(Failure::mismatch(format!("`{}` failed: {}", c.sql, e.short()))),
    }
}

