//! Value and table model shared by all checks. Nothing in here uses LocustDB's engine code;
//! only the public wire types (`EventBuffer`, `ColumnData`, `AnyVal`) that a client would use.

use std::collections::{BTreeMap, BTreeSet, HashMap};

use locustdb_serialization::api::AnyVal;
use locustdb_serialization::event_buffer::{ColumnBuffer, ColumnData, EventBuffer, TableBuffer};
use serde::{Deserialize, Serialize};

/// The engine's reserved NULL markers (excluded from the value domain by the property list).
pub const I64_NULL: i64 = i64::MAX;
pub const F64_NULL_BITS: u64 = 0x7ffa_aaaa_aaaa_aaaa;

#[derive(Clone, Debug, PartialEq, Eq, Hash, PartialOrd, Ord, Serialize, Deserialize)]
pub enum Cell {
    Null,
    Int(i64),
    /// f64 by bit pattern, so that equality is bit-exact and -0.0, NaN payloads are representable.
    Float(FBits),
    Str(String),
}

#[derive(Clone, Copy, Debug, PartialEq, Eq, Hash, PartialOrd, Ord)]
pub struct FBits(pub u64);

impl FBits {
    pub fn of(f: f64) -> FBits {
        FBits(f.to_bits())
    }
    pub fn get(self) -> f64 {
        f64::from_bits(self.0)
    }
}

impl Serialize for FBits {
    fn serialize<S: serde::Serializer>(&self, s: S) -> Result<S::Ok, S::Error> {
        // "<float repr>#<hex bits>": readable and exact.
        s.serialize_str(&format!("{:?}#{:016x}", self.get(), self.0))
    }
}

impl<'de> Deserialize<'de> for FBits {
    fn deserialize<D: serde::Deserializer<'de>>(d: D) -> Result<Self, D::Error> {
        let s = String::deserialize(d)?;
        let hex = s.rsplit('#').next().unwrap_or("");
        u64::from_str_radix(hex, 16)
            .map(FBits)
            .map_err(|e| serde::de::Error::custom(format!("bad float bits {:?}: {}", s, e)))
    }
}

impl Cell {
    pub fn float(f: f64) -> Cell {
        Cell::Float(FBits::of(f))
    }
    pub fn is_null(&self) -> bool {
        matches!(self, Cell::Null)
    }
    pub fn short(&self) -> String {
        match self {
            Cell::Null => "NULL".into(),
            Cell::Int(i) => format!("{}", i),
            Cell::Float(f) => format!("{:?}", f.get()),
            Cell::Str(s) => format!("{:?}", s),
        }
    }
}

/// One column of one ingestion batch in the representation a client chose for it.
#[derive(Clone, Debug, PartialEq, Serialize, Deserialize)]
pub enum ColRep {
    /// Dense f64; may be shorter than the batch (padded with NULL by the server).
    Dense(Vec<FBits>),
    /// Sparse f64: strictly increasing row indices < rows.
    Sparse(Vec<(u64, FBits)>),
    /// Dense i64; may be shorter than the batch.
    I64(Vec<i64>),
    SparseI64(Vec<(u64, i64)>),
    /// Exactly `rows` entries.
    Str(Vec<String>),
    /// Exactly `rows` entries.
    Mixed(Vec<Cell>),
    Empty,
}

impl ColRep {
    pub fn kind(&self) -> &'static str {
        match self {
            ColRep::Dense(_) => "dense",
            ColRep::Sparse(_) => "sparse",
            ColRep::I64(_) => "i64",
            ColRep::SparseI64(_) => "sparse_i64",
            ColRep::Str(_) => "string",
            ColRep::Mixed(_) => "mixed",
            ColRep::Empty => "empty",
        }
    }

    /// The logical cells of this column for a batch with `rows` rows.
    pub fn cells(&self, rows: usize) -> Vec<Cell> {
        let mut out = vec![Cell::Null; rows];
        match self {
            ColRep::Dense(v) => {
                for (i, f) in v.iter().enumerate() {
                    out[i] = Cell::Float(*f);
                }
            }
            ColRep::Sparse(v) => {
                for (i, f) in v {
                    out[*i as usize] = Cell::Float(*f);
                }
            }
            ColRep::I64(v) => {
                for (i, x) in v.iter().enumerate() {
                    out[i] = Cell::Int(*x);
                }
            }
            ColRep::SparseI64(v) => {
                for (i, x) in v {
                    out[*i as usize] = Cell::Int(*x);
                }
            }
            ColRep::Str(v) => {
                for (i, s) in v.iter().enumerate() {
                    out[i] = Cell::Str(s.clone());
                }
            }
            ColRep::Mixed(v) => {
                for (i, c) in v.iter().enumerate() {
                    out[i] = c.clone();
                }
            }
            ColRep::Empty => {}
        }
        out
    }

    pub fn to_column_data(&self) -> ColumnData {
        match self {
            ColRep::Dense(v) => ColumnData::Dense(v.iter().map(|f| f.get()).collect()),
            ColRep::Sparse(v) => ColumnData::Sparse(v.iter().map(|(i, f)| (*i, f.get())).collect()),
            ColRep::I64(v) => ColumnData::I64(v.clone()),
            ColRep::SparseI64(v) => ColumnData::SparseI64(v.clone()),
            ColRep::Str(v) => ColumnData::String(v.clone()),
            ColRep::Mixed(v) => ColumnData::Mixed(v.iter().map(cell_to_anyval).collect()),
            ColRep::Empty => ColumnData::Empty,
        }
    }

    /// Picks a representation for a slice of cells that all have one type (plus NULL).
    /// `variant` selects among the representations that can express the slice.
    pub fn for_cells(cells: &[Cell], variant: u8) -> Option<ColRep> {
        let rows = cells.len();
        let non_null = cells.iter().filter(|c| !c.is_null()).count();
        if non_null == 0 {
            // None = column absent from the batch.
            return match variant % 3 {
                0 => None,
                1 => Some(ColRep::Empty),
                _ => Some(ColRep::Mixed(vec![Cell::Null; rows])),
            };
        }
        let first = cells.iter().find(|c| !c.is_null()).unwrap();
        let homogeneous = cells.iter().all(|c| {
            c.is_null() || std::mem::discriminant(c) == std::mem::discriminant(first)
        });
        if !homogeneous {
            return Some(ColRep::Mixed(cells.to_vec()));
        }
        // Number of leading non-null cells (a "short dense" column covers exactly those).
        let prefix = cells.iter().take_while(|c| !c.is_null()).count();
        let prefix_only = prefix == non_null;
        match first {
            Cell::Int(_) => {
                let dense_ok = prefix_only;
                let sparse: Vec<(u64, i64)> = cells
                    .iter()
                    .enumerate()
                    .filter_map(|(i, c)| match c {
                        Cell::Int(x) => Some((i as u64, *x)),
                        _ => None,
                    })
                    .collect();
                match variant % 4 {
                    0 | 1 if dense_ok => Some(ColRep::I64(sparse.iter().map(|x| x.1).collect())),
                    3 => Some(ColRep::Mixed(cells.to_vec())),
                    _ => {
                        // A sparse column without any NULL is legal too; its first index must not be
                        // > 0 for a wire producer built through the row API, but the server accepts it.
                        Some(ColRep::SparseI64(sparse))
                    }
                }
            }
            Cell::Float(_) => {
                let dense_ok = prefix_only;
                let sparse: Vec<(u64, FBits)> = cells
                    .iter()
                    .enumerate()
                    .filter_map(|(i, c)| match c {
                        Cell::Float(x) => Some((i as u64, *x)),
                        _ => None,
                    })
                    .collect();
                match variant % 4 {
                    0 | 1 if dense_ok => Some(ColRep::Dense(sparse.iter().map(|x| x.1).collect())),
                    3 => Some(ColRep::Mixed(cells.to_vec())),
                    _ => Some(ColRep::Sparse(sparse)),
                }
            }
            Cell::Str(_) => {
                if non_null == rows && variant % 4 != 3 {
                    Some(ColRep::Str(
                        cells
                            .iter()
                            .map(|c| match c {
                                Cell::Str(s) => s.clone(),
                                _ => unreachable!(),
                            })
                            .collect(),
                    ))
                } else {
                    Some(ColRep::Mixed(cells.to_vec()))
                }
            }
            Cell::Null => unreachable!(),
        }
    }
}

pub fn cell_to_anyval(c: &Cell) -> AnyVal {
    match c {
        Cell::Null => AnyVal::Null,
        Cell::Int(i) => AnyVal::Int(*i),
        Cell::Float(f) => AnyVal::Float(f.get()),
        Cell::Str(s) => AnyVal::Str(s.clone()),
    }
}

/// One ingestion batch for one table.
#[derive(Clone, Debug, PartialEq, Serialize, Deserialize)]
pub struct Batch {
    pub rows: usize,
    pub cols: BTreeMap<String, ColRep>,
}

impl Batch {
    pub fn to_table_buffer(&self) -> TableBuffer {
        // Built through the wire format so that an explicit `len` can be given (TableBuffer::new derives
        // the length from entry counts, which is wrong for sparse columns).
        let mut eb = EventBuffer::default();
        let _ = &mut eb;
        let bytes = serialize_tables(&[("t".to_string(), self.clone())]);
        let mut eb = EventBuffer::deserialize(&bytes).expect("own wire message must decode");
        eb.tables.remove("t").unwrap()
    }

    /// A batch is acceptable to the server iff at least one column determines the full length.
    /// (Buffer::push_typed_cols asserts that every column reaches the new length.)
    pub fn well_formed(&self) -> bool {
        if self.rows == 0 || self.cols.is_empty() {
            return false;
        }
        for (_, c) in &self.cols {
            match c {
                ColRep::Dense(v) if v.len() > self.rows => return false,
                ColRep::I64(v) if v.len() > self.rows => return false,
                ColRep::Str(v) if v.len() != self.rows => return false,
                ColRep::Mixed(v) if v.len() != self.rows => return false,
                ColRep::Sparse(v) => {
                    if !strictly_increasing(v.iter().map(|x| x.0), self.rows) {
                        return false;
                    }
                }
                ColRep::SparseI64(v) => {
                    if !strictly_increasing(v.iter().map(|x| x.0), self.rows) {
                        return false;
                    }
                }
                _ => {}
            }
        }
        true
    }
}

fn strictly_increasing<I: Iterator<Item = u64>>(it: I, rows: usize) -> bool {
    let mut prev: Option<u64> = None;
    for i in it {
        if i as usize >= rows {
            return false;
        }
        if let Some(p) = prev {
            if i <= p {
                return false;
            }
        }
        prev = Some(i);
    }
    true
}

/// Builds the capnp `TableSegmentList` wire message for a set of (table, batch) pairs, with explicit
/// lengths — what a client speaking the wire schema directly would send.
pub fn serialize_tables(tables: &[(String, Batch)]) -> Vec<u8> {
    use locustdb_serialization::wal_segment_capnp::table_segment_list;
    let mut builder = capnp::message::Builder::new_default();
    {
        let tsl = builder.init_root::<table_segment_list::Builder>();
        let mut data = tsl.init_data(tables.len() as u32);
        for (i, (name, batch)) in tables.iter().enumerate() {
            let mut tb = data.reborrow().get(i as u32);
            tb.set_len(batch.rows as u64);
            tb.set_name(name.as_str());
            let mut columns = tb.reborrow().init_columns(batch.cols.len() as u32);
            for (j, (colname, col)) in batch.cols.iter().enumerate() {
                let mut cb = columns.reborrow().get(j as u32);
                cb.set_name(colname.as_str());
                match col {
                    ColRep::Dense(v) => {
                        let f: Vec<f64> = v.iter().map(|x| x.get()).collect();
                        cb.get_data().set_f64(&f[..]).unwrap();
                    }
                    ColRep::Sparse(v) => {
                        let mut sb = cb.get_data().init_sparse_f64();
                        let idx: Vec<u64> = v.iter().map(|x| x.0).collect();
                        let vals: Vec<f64> = v.iter().map(|x| x.1.get()).collect();
                        sb.reborrow().set_indices(&idx[..]).unwrap();
                        sb.reborrow().set_values(&vals[..]).unwrap();
                    }
                    ColRep::I64(v) => {
                        cb.get_data().set_i64(&v[..]).unwrap();
                    }
                    ColRep::SparseI64(v) => {
                        let mut sb = cb.get_data().init_sparse_i64();
                        let idx: Vec<u64> = v.iter().map(|x| x.0).collect();
                        let vals: Vec<i64> = v.iter().map(|x| x.1).collect();
                        sb.reborrow().set_indices(&idx[..]).unwrap();
                        sb.reborrow().set_values(&vals[..]).unwrap();
                    }
                    ColRep::Str(v) => {
                        cb.get_data().set_string(&v[..]).unwrap();
                    }
                    ColRep::Empty => cb.get_data().set_empty(()),
                    ColRep::Mixed(v) => {
                        let mut mb = cb.get_data().init_mixed(v.len() as u32);
                        for (k, c) in v.iter().enumerate() {
                            let mut vb = mb.reborrow().get(k as u32).init_value();
                            match c {
                                Cell::Int(i) => vb.set_i64(*i),
                                Cell::Float(f) => vb.set_f64(f.get()),
                                Cell::Str(s) => vb.set_string(s.as_str()),
                                Cell::Null => vb.set_null(()),
                            }
                        }
                    }
                }
            }
        }
    }
    let mut buf = Vec::new();
    capnp::serialize_packed::write_message(&mut buf, &builder).unwrap();
    buf
}

/// An ingestion request: one batch for each of several tables.
#[derive(Clone, Debug, PartialEq, Serialize, Deserialize)]
pub struct Request {
    pub tables: BTreeMap<String, Batch>,
}

impl Request {
    pub fn single(table: &str, batch: Batch) -> Request {
        let mut tables = BTreeMap::new();
        tables.insert(table.to_string(), batch);
        Request { tables }
    }

    pub fn to_event_buffer(&self) -> EventBuffer {
        let pairs: Vec<(String, Batch)> =
            self.tables.iter().map(|(k, v)| (k.clone(), v.clone())).collect();
        EventBuffer::deserialize(&serialize_tables(&pairs)).expect("own wire message must decode")
    }

    /// Native construction through `TableBuffer::new` where that is expressible (no sparse columns,
    /// no short dense columns), falling back to the wire path otherwise.
    pub fn to_event_buffer_native(&self) -> EventBuffer {
        let mut eb = EventBuffer::default();
        for (name, batch) in &self.tables {
            let expressible = batch.cols.values().all(|c| match c {
                ColRep::Dense(v) => v.len() == batch.rows,
                ColRep::I64(v) => v.len() == batch.rows,
                ColRep::Str(_) | ColRep::Mixed(_) | ColRep::Empty => true,
                _ => false,
            }) && batch.cols.values().any(|c| !matches!(c, ColRep::Empty));
            if !expressible {
                return self.to_event_buffer();
            }
            let mut cols = HashMap::new();
            for (cn, c) in &batch.cols {
                cols.insert(cn.clone(), ColumnBuffer { data: c.to_column_data() });
            }
            eb.tables.insert(name.clone(), TableBuffer::new(cols));
        }
        eb
    }
}

/// The logical content of one table: ordered rows over the union of all column names.
#[derive(Clone, Debug, Default, PartialEq)]
pub struct TableModel {
    pub rows: usize,
    pub cols: BTreeMap<String, Vec<Cell>>,
}

impl TableModel {
    pub fn append(&mut self, batch: &Batch) {
        for (name, rep) in &batch.cols {
            let col = self
                .cols
                .entry(name.clone())
                .or_insert_with(|| vec![Cell::Null; self.rows]);
            col.extend(rep.cells(batch.rows));
        }
        self.rows += batch.rows;
        for col in self.cols.values_mut() {
            if col.len() < self.rows {
                col.resize(self.rows, Cell::Null);
            }
        }
    }

    pub fn column_names(&self) -> BTreeSet<String> {
        self.cols.keys().cloned().collect()
    }

    pub fn row(&self, i: usize) -> BTreeMap<&str, &Cell> {
        self.cols.iter().map(|(k, v)| (k.as_str(), &v[i])).collect()
    }
}

/// Model of a whole database: what has been acknowledged so far.
#[derive(Clone, Debug, Default, PartialEq)]
pub struct DbModel {
    pub tables: BTreeMap<String, TableModel>,
}

impl DbModel {
    pub fn apply(&mut self, req: &Request) {
        for (t, b) in &req.tables {
            self.tables.entry(t.clone()).or_default().append(b);
        }
    }
}

pub fn splitmix64(mut x: u64) -> u64 {
    x = x.wrapping_add(0x9e37_79b9_7f4a_7c15);
    let mut z = x;
    z = (z ^ (z >> 30)).wrapping_mul(0xbf58_476d_1ce4_e5b9);
    z = (z ^ (z >> 27)).wrapping_mul(0x94d0_49bb_1331_11eb);
    z ^ (z >> 31)
}

pub fn hash_str(s: &str) -> u64 {
    // FNV-1a, deterministic across processes (unlike std's RandomState).
    let mut h: u64 = 0xcbf2_9ce4_8422_2325;
    for b in s.as_bytes() {
        h ^= *b as u64;
        h = h.wrapping_mul(0x0000_0100_0000_01b3);
    }
    h
}
