//! Query AST for the supported SQL fragment, SQL rendering, and a slow row-at-a-time reference
//! evaluator (SQL three-valued logic, i128 arithmetic). No LocustDB engine code is used here.

use std::cmp::Ordering;
use std::collections::BTreeMap;

use serde::{Deserialize, Serialize};

use crate::model::{Cell, FBits};

#[derive(Clone, Copy, Debug, PartialEq, Eq, Hash, Serialize, Deserialize)]
pub enum BinOp {
    Add,
    Sub,
    Mul,
    Div,
    Mod,
    Eq,
    Ne,
    Lt,
    Le,
    Gt,
    Ge,
    And,
    Or,
}

impl BinOp {
    pub fn sql(self) -> &'static str {
        match self {
            BinOp::Add => "+",
            BinOp::Sub => "-",
            BinOp::Mul => "*",
            BinOp::Div => "/",
            BinOp::Mod => "%",
            BinOp::Eq => "=",
            BinOp::Ne => "<>",
            BinOp::Lt => "<",
            BinOp::Le => "<=",
            BinOp::Gt => ">",
            BinOp::Ge => ">=",
            BinOp::And => "AND",
            BinOp::Or => "OR",
        }
    }
    pub fn is_cmp(self) -> bool {
        matches!(self, BinOp::Eq | BinOp::Ne | BinOp::Lt | BinOp::Le | BinOp::Gt | BinOp::Ge)
    }
    pub fn is_arith(self) -> bool {
        matches!(self, BinOp::Add | BinOp::Sub | BinOp::Mul | BinOp::Div | BinOp::Mod)
    }
}

#[derive(Clone, Copy, Debug, PartialEq, Eq, Hash, Serialize, Deserialize)]
pub enum AggKind {
    Count,
    Sum,
    Min,
    Max,
    Avg,
}

impl AggKind {
    pub fn sql(self) -> &'static str {
        match self {
            AggKind::Count => "count",
            AggKind::Sum => "sum",
            AggKind::Min => "min",
            AggKind::Max => "max",
            AggKind::Avg => "avg",
        }
    }
}

#[derive(Clone, Debug, PartialEq, Serialize, Deserialize)]
pub enum Expr {
    Col(String),
    Int(i64),
    Float(FBits),
    Str(String),
    Bin(BinOp, Box<Expr>, Box<Expr>),
    Not(Box<Expr>),
    IsNull(Box<Expr>),
    IsNotNull(Box<Expr>),
    /// (expr, pattern, negated)
    Like(Box<Expr>, String, bool),
    Regex(Box<Expr>, String),
    Length(Box<Expr>),
    Floor(Box<Expr>),
    ToYear(Box<Expr>),
    Agg(AggKind, Box<Expr>),
}

pub fn col(name: &str) -> Expr {
    Expr::Col(name.to_string())
}
pub fn bin(op: BinOp, a: Expr, b: Expr) -> Expr {
    Expr::Bin(op, Box::new(a), Box::new(b))
}

fn sql_str(s: &str) -> String {
    format!("'{}'", s.replace('\'', "''"))
}

pub fn sql_ident(s: &str) -> String {
    format!("\"{}\"", s)
}

pub fn sql_float(f: f64) -> String {
    let s = format!("{}", f);
    if s.contains('.') || s.contains("inf") || s.contains("NaN") {
        s
    } else {
        format!("{}.0", s)
    }
}

impl Expr {
    pub fn sql(&self) -> String {
        match self {
            Expr::Col(c) => sql_ident(c),
            Expr::Int(i) => format!("{}", i),
            Expr::Float(f) => sql_float(f.get()),
            Expr::Str(s) => sql_str(s),
            Expr::Bin(op, a, b) => format!("({} {} {})", a.sql(), op.sql(), b.sql()),
            Expr::Not(e) => format!("(NOT {})", e.sql()),
            Expr::IsNull(e) => format!("({} IS NULL)", e.sql()),
            Expr::IsNotNull(e) => format!("({} IS NOT NULL)", e.sql()),
            Expr::Like(e, p, neg) => {
                format!("({} {}LIKE {})", e.sql(), if *neg { "NOT " } else { "" }, sql_str(p))
            }
            Expr::Regex(e, p) => format!("regex({}, {})", e.sql(), sql_str(p)),
            Expr::Length(e) => format!("length({})", e.sql()),
            Expr::Floor(e) => format!("floor({})", e.sql()),
            Expr::ToYear(e) => format!("to_year({})", e.sql()),
            Expr::Agg(k, e) => format!("{}({})", k.sql(), e.sql()),
        }
    }

    pub fn has_agg(&self) -> bool {
        match self {
            Expr::Agg(..) => true,
            Expr::Bin(_, a, b) => a.has_agg() || b.has_agg(),
            Expr::Not(e)
            | Expr::IsNull(e)
            | Expr::IsNotNull(e)
            | Expr::Like(e, _, _)
            | Expr::Regex(e, _)
            | Expr::Length(e)
            | Expr::Floor(e)
            | Expr::ToYear(e) => e.has_agg(),
            _ => false,
        }
    }

    pub fn columns(&self, out: &mut Vec<String>) {
        match self {
            Expr::Col(c) => {
                if !out.contains(c) {
                    out.push(c.clone())
                }
            }
            Expr::Bin(_, a, b) => {
                a.columns(out);
                b.columns(out);
            }
            Expr::Not(e)
            | Expr::IsNull(e)
            | Expr::IsNotNull(e)
            | Expr::Like(e, _, _)
            | Expr::Regex(e, _)
            | Expr::Length(e)
            | Expr::Floor(e)
            | Expr::ToYear(e)
            | Expr::Agg(_, e) => e.columns(out),
            _ => {}
        }
    }

    pub fn any<F: Fn(&Expr) -> bool + Copy>(&self, f: F) -> bool {
        if f(self) {
            return true;
        }
        match self {
            Expr::Bin(_, a, b) => a.any(f) || b.any(f),
            Expr::Not(e)
            | Expr::IsNull(e)
            | Expr::IsNotNull(e)
            | Expr::Like(e, _, _)
            | Expr::Regex(e, _)
            | Expr::Length(e)
            | Expr::Floor(e)
            | Expr::ToYear(e)
            | Expr::Agg(_, e) => e.any(f),
            _ => false,
        }
    }
}

#[derive(Clone, Debug, PartialEq, Serialize, Deserialize)]
pub struct SelectItem {
    pub expr: Expr,
    pub alias: Option<String>,
}

#[derive(Clone, Debug, PartialEq, Serialize, Deserialize)]
pub struct Query {
    pub select: Vec<SelectItem>,
    pub table: String,
    pub filter: Option<Expr>,
    /// (expr, descending)
    pub order_by: Vec<(Expr, bool)>,
    pub limit: Option<u64>,
    pub offset: Option<u64>,
}

impl Query {
    pub fn sql(&self) -> String {
        let mut s = String::from("SELECT ");
        s.push_str(
            &self
                .select
                .iter()
                .map(|i| match &i.alias {
                    Some(a) => format!("{} AS {}", i.expr.sql(), sql_ident(a)),
                    None => i.expr.sql(),
                })
                .collect::<Vec<_>>()
                .join(", "),
        );
        s.push_str(&format!(" FROM {}", sql_ident(&self.table)));
        if let Some(f) = &self.filter {
            s.push_str(&format!(" WHERE {}", f.sql()));
        }
        if !self.order_by.is_empty() {
            s.push_str(" ORDER BY ");
            s.push_str(
                &self
                    .order_by
                    .iter()
                    .map(|(e, d)| format!("{}{}", e.sql(), if *d { " DESC" } else { " ASC" }))
                    .collect::<Vec<_>>()
                    .join(", "),
            );
        }
        if let Some(l) = self.limit {
            s.push_str(&format!(" LIMIT {}", l));
        }
        if let Some(o) = self.offset {
            s.push_str(&format!(" OFFSET {}", o));
        }
        s
    }

    pub fn is_aggregate(&self) -> bool {
        self.select.iter().any(|i| i.expr.has_agg())
    }
}

// ---------------------------------------------------------------------------------------------
// Evaluation
// ---------------------------------------------------------------------------------------------

#[derive(Clone, Debug, PartialEq, Serialize, Deserialize)]
pub enum EvalErr {
    /// integer result outside i64, or division by zero
    Overflow,
    /// outside the typed fragment (the engine may decline)
    Type(String),
}

/// A row: column name -> cell (absent = NULL).
pub type Row<'a> = &'a BTreeMap<String, Cell>;

pub fn cell_f64(c: &Cell) -> Option<f64> {
    match c {
        Cell::Int(i) => Some(*i as f64),
        Cell::Float(f) => Some(f.get()),
        _ => None,
    }
}

fn fit(x: i128) -> Result<Cell, EvalErr> {
    if x < i64::MIN as i128 || x > i64::MAX as i128 {
        Err(EvalErr::Overflow)
    } else {
        Ok(Cell::Int(x as i64))
    }
}

/// Compares the exact values of an integer and a (non-NaN) float.
pub fn cmp_int_float_exact(i: i64, f: f64) -> Ordering {
    if f >= 9223372036854775808.0 {
        return Ordering::Less;
    }
    if f < -9223372036854775808.0 {
        return Ordering::Greater;
    }
    let t = f.trunc();
    let ti = t as i64; // exact: |t| <= 2^63 and t is integral (t = -2^63 maps to i64::MIN)
    match i.cmp(&ti) {
        Ordering::Equal => {
            let frac = f - t;
            if frac > 0.0 {
                Ordering::Less
            } else if frac < 0.0 {
                Ordering::Greater
            } else {
                Ordering::Equal
            }
        }
        o => o,
    }
}

/// Three-valued comparison. None = UNKNOWN.
pub fn compare_cells(a: &Cell, b: &Cell) -> Result<Option<Ordering>, EvalErr> {
    Ok(match (a, b) {
        (Cell::Null, _) | (_, Cell::Null) => None,
        (Cell::Int(x), Cell::Int(y)) => Some(x.cmp(y)),
        (Cell::Str(x), Cell::Str(y)) => Some(x.as_bytes().cmp(y.as_bytes())),
        (Cell::Float(_), Cell::Float(_)) | (Cell::Int(_), Cell::Float(_)) | (Cell::Float(_), Cell::Int(_)) => {
            let (x, y) = (cell_f64(a).unwrap(), cell_f64(b).unwrap());
            let o = match x.partial_cmp(&y) {
                Some(o) => o,
                None => return Err(EvalErr::Type("NaN comparison".into())),
            };
            // An integer beyond 2^53 against a float: comparing the exact values and comparing after conversion
            // to f64 can disagree, and the property does not say which is meant. Such a comparison is outside
            // the judged fragment (reported like a type error: the answer is not compared).
            let exact = match (a, b) {
                (Cell::Int(i), Cell::Float(f)) => Some(cmp_int_float_exact(*i, f.get())),
                (Cell::Float(f), Cell::Int(i)) => Some(cmp_int_float_exact(*i, f.get()).reverse()),
                _ => None,
            };
            if let Some(e) = exact {
                if e != o {
                    return Err(EvalErr::Type("integer/float comparison whose outcome depends on rounding the integer to f64".into()));
                }
            }
            Some(o)
        }
        _ => return Err(EvalErr::Type(format!("compare {:?} with {:?}", a, b))),
    })
}

fn truth(c: &Cell) -> Result<Option<bool>, EvalErr> {
    match c {
        Cell::Null => Ok(None),
        Cell::Int(i) => Ok(Some(*i != 0)),
        _ => Err(EvalErr::Type("non-boolean predicate".into())),
    }
}

fn from_truth(t: Option<bool>) -> Cell {
    match t {
        None => Cell::Null,
        Some(true) => Cell::Int(1),
        Some(false) => Cell::Int(0),
    }
}

/// SQL LIKE: % = any sequence, _ = exactly one character. No escape character.
pub fn like_match(s: &str, pattern: &str) -> bool {
    let s: Vec<char> = s.chars().collect();
    let p: Vec<char> = pattern.chars().collect();
    // dp[j] = pattern[..j] matches s[..i]
    let mut dp = vec![false; p.len() + 1];
    dp[0] = true;
    for j in 0..p.len() {
        dp[j + 1] = dp[j] && p[j] == '%';
    }
    for i in 0..s.len() {
        let mut next = vec![false; p.len() + 1];
        for j in 0..p.len() {
            next[j + 1] = match p[j] {
                '%' => next[j] || dp[j + 1],
                '_' => dp[j],
                c => dp[j] && c == s[i],
            };
        }
        dp = next;
    }
    dp[p.len()]
}

pub fn year_of_timestamp(ts: i64) -> i64 {
    // civil-from-days (Howard Hinnant), UTC
    let days = ts.div_euclid(86400);
    let z = days + 719468;
    let era = z.div_euclid(146097);
    let doe = z.rem_euclid(146097);
    let yoe = (doe - doe / 1460 + doe / 36524 - doe / 146096) / 365;
    let y = yoe + era * 400;
    let doy = doe - (365 * yoe + yoe / 4 - yoe / 100);
    let mp = (5 * doy + 2) / 153;
    let m = if mp < 10 { mp + 3 } else { mp - 9 };
    if m <= 2 {
        y + 1
    } else {
        y
    }
}

pub fn eval(e: &Expr, row: Row) -> Result<Cell, EvalErr> {
    eval_sem(e, row, false)
}

/// `strict`: the documented deviation of the engine (known finding KF-or-null): AND/OR are NULL as
/// soon as one operand is NULL, instead of Kleene logic.
pub fn eval_sem(e: &Expr, row: Row, strict: bool) -> Result<Cell, EvalErr> {
    let eval = |e: &Expr, row: Row| eval_sem(e, row, strict);
    Ok(match e {
        Expr::Col(c) => row.get(c).cloned().unwrap_or(Cell::Null),
        Expr::Int(i) => Cell::Int(*i),
        Expr::Float(f) => Cell::Float(*f),
        Expr::Str(s) => Cell::Str(s.clone()),
        Expr::Bin(op, a, b) if op.is_arith() => {
            let (x, y) = (eval(a, row)?, eval(b, row)?);
            match (&x, &y) {
                (Cell::Null, _) | (_, Cell::Null) => Cell::Null,
                (Cell::Int(p), Cell::Int(q)) => {
                    let (p, q) = (*p as i128, *q as i128);
                    match op {
                        BinOp::Add => fit(p + q)?,
                        BinOp::Sub => fit(p - q)?,
                        BinOp::Mul => fit(p * q)?,
                        BinOp::Div => {
                            if q == 0 {
                                return Err(EvalErr::Overflow);
                            }
                            fit(p / q)?
                        }
                        BinOp::Mod => {
                            if q == 0 {
                                return Err(EvalErr::Overflow);
                            }
                            fit(p % q)?
                        }
                        _ => unreachable!(),
                    }
                }
                (Cell::Float(_), Cell::Int(_)) | (Cell::Int(_), Cell::Float(_)) | (Cell::Float(_), Cell::Float(_))
                    if *op == BinOp::Mul =>
                {
                    Cell::float(cell_f64(&x).unwrap() * cell_f64(&y).unwrap())
                }
                _ => return Err(EvalErr::Type(format!("arith {:?} on {:?}, {:?}", op, x, y))),
            }
        }
        Expr::Bin(op, a, b) if op.is_cmp() => {
            let (x, y) = (eval(a, row)?, eval(b, row)?);
            let o = compare_cells(&x, &y)?;
            from_truth(o.map(|o| match op {
                BinOp::Eq => o == Ordering::Equal,
                BinOp::Ne => o != Ordering::Equal,
                BinOp::Lt => o == Ordering::Less,
                BinOp::Le => o != Ordering::Greater,
                BinOp::Gt => o == Ordering::Greater,
                BinOp::Ge => o != Ordering::Less,
                _ => unreachable!(),
            }))
        }
        Expr::Bin(BinOp::And, a, b) => {
            let (x, y) = (truth(&eval(a, row)?)?, truth(&eval(b, row)?)?);
            from_truth(match (x, y) {
                (None, _) | (_, None) if strict => None,
                (Some(false), _) | (_, Some(false)) => Some(false),
                (Some(true), Some(true)) => Some(true),
                _ => None,
            })
        }
        Expr::Bin(BinOp::Or, a, b) => {
            let (x, y) = (truth(&eval(a, row)?)?, truth(&eval(b, row)?)?);
            from_truth(match (x, y) {
                (None, _) | (_, None) if strict => None,
                (Some(true), _) | (_, Some(true)) => Some(true),
                (Some(false), Some(false)) => Some(false),
                _ => None,
            })
        }
        Expr::Bin(..) => unreachable!(),
        Expr::Not(a) => from_truth(truth(&eval(a, row)?)?.map(|b| !b)),
        Expr::IsNull(a) => from_truth(Some(eval(a, row)?.is_null())),
        Expr::IsNotNull(a) => from_truth(Some(!eval(a, row)?.is_null())),
        Expr::Like(a, p, neg) => match eval(a, row)? {
            Cell::Null => Cell::Null,
            Cell::Str(s) => from_truth(Some(like_match(&s, p) != *neg)),
            x => return Err(EvalErr::Type(format!("LIKE on {:?}", x))),
        },
        Expr::Regex(a, p) => match eval(a, row)? {
            Cell::Null => Cell::Null,
            Cell::Str(s) => match regex::Regex::new(p) {
                Ok(r) => from_truth(Some(r.is_match(&s))),
                Err(_) => return Err(EvalErr::Type("regex does not compile".into())),
            },
            x => return Err(EvalErr::Type(format!("regex on {:?}", x))),
        },
        Expr::Length(a) => match eval(a, row)? {
            Cell::Null => Cell::Null,
            Cell::Str(s) => Cell::Int(s.len() as i64),
            x => return Err(EvalErr::Type(format!("length of {:?}", x))),
        },
        Expr::Floor(a) => match eval(a, row)? {
            Cell::Null => Cell::Null,
            Cell::Float(f) => Cell::Int(f.get().floor() as i64),
            Cell::Int(i) => Cell::Int(i),
            x => return Err(EvalErr::Type(format!("floor of {:?}", x))),
        },
        Expr::ToYear(a) => match eval(a, row)? {
            Cell::Null => Cell::Null,
            Cell::Int(i) => Cell::Int(year_of_timestamp(i)),
            x => return Err(EvalErr::Type(format!("to_year of {:?}", x))),
        },
        Expr::Agg(..) => return Err(EvalErr::Type("aggregate in row context".into())),
    })
}

/// Is the row kept by the filter? (TRUE only)
pub fn keeps(filter: &Option<Expr>, row: Row) -> Result<bool, EvalErr> {
    keeps_sem(filter, row, false)
}

pub fn keeps_sem(filter: &Option<Expr>, row: Row, strict: bool) -> Result<bool, EvalErr> {
    match filter {
        None => Ok(true),
        Some(f) => Ok(truth(&eval_sem(f, row, strict)?)? == Some(true)),
    }
}

/// Does some AND/OR node of the filter see a NULL operand on some row?
pub fn null_reaches_connective(filter: &Option<Expr>, rows: &[BTreeMap<String, Cell>]) -> bool {
    fn walk(e: &Expr, row: Row) -> bool {
        match e {
            Expr::Bin(op, a, b) if matches!(op, BinOp::And | BinOp::Or) => {
                matches!(eval(a, row), Ok(Cell::Null)) || matches!(eval(b, row), Ok(Cell::Null)) || walk(a, row) || walk(b, row)
            }
            Expr::Not(a) => walk(a, row),
            _ => false,
        }
    }
    match filter {
        None => false,
        Some(f) => rows.iter().any(|r| walk(f, r)),
    }
}

/// Does the filter keep the same rows under Kleene logic and under the engine's strict AND/OR?
pub fn strict_equivalent(filter: &Option<Expr>, rows: &[BTreeMap<String, Cell>]) -> bool {
    rows.iter().all(|r| match (keeps_sem(filter, r, false), keeps_sem(filter, r, true)) {
        (Ok(a), Ok(b)) => a == b,
        _ => true,
    })
}

/// Total order used for ORDER BY: NULL after every value (ascending).
pub fn order_cells(a: &Cell, b: &Cell) -> Ordering {
    match (a, b) {
        (Cell::Null, Cell::Null) => Ordering::Equal,
        (Cell::Null, _) => Ordering::Greater,
        (_, Cell::Null) => Ordering::Less,
        _ => compare_cells(a, b).ok().flatten().unwrap_or(Ordering::Equal),
    }
}

pub fn order_keys(a: &[Cell], b: &[Cell], desc: &[bool]) -> Ordering {
    for ((x, y), d) in a.iter().zip(b.iter()).zip(desc.iter()) {
        let o = order_cells(x, y);
        let o = if *d { o.reverse() } else { o };
        if o != Ordering::Equal {
            return o;
        }
    }
    Ordering::Equal
}

/// Key equality for grouping and tie classes: numeric for floats (-0.0 = 0.0), NULL = NULL.
pub fn key_eq(a: &Cell, b: &Cell) -> bool {
    match (a, b) {
        (Cell::Null, Cell::Null) => true,
        (Cell::Null, _) | (_, Cell::Null) => false,
        (Cell::Float(x), Cell::Float(y)) => x.get() == y.get(),
        _ => a == b,
    }
}

/// Canonical grouping key (so that -0.0 and 0.0 fall into one group).
pub fn canon_key(c: &Cell) -> Cell {
    match c {
        Cell::Float(f) if f.get() == 0.0 => Cell::float(0.0),
        c => c.clone(),
    }
}

#[derive(Clone, Debug, PartialEq, Serialize, Deserialize)]
pub struct Expected {
    pub colnames: Vec<String>,
    /// Reference rows in reference order (for non-ORDER BY: table order; for ORDER BY: a stable sort).
    pub rows: Vec<Vec<Cell>>,
    /// Sort keys per row (same order as `rows`), empty when the query has no ORDER BY.
    pub keys: Vec<Vec<Cell>>,
    /// Some row that the filter removes (or some group) overflows although the kept ones do not:
    /// an engine that evaluates eagerly may legitimately report Overflow.
    pub overflow_possible: bool,
    /// float sums per output cell: (row, col) -> sum of |x| and count, for the tolerance
    pub float_sum_scale: BTreeMap<(usize, usize), (f64, usize)>,
    /// Source row index of each output row (non-aggregate queries).
    pub source: Vec<usize>,
}

pub fn colname_of(item: &SelectItem) -> String {
    match &item.alias {
        Some(a) => a.clone(),
        None => display_name(&item.expr),
    }
}

/// The name the engine derives for an unaliased select item: the expression as written, quotes stripped
/// from a plain identifier. Only plain columns are given unaliased by the generators where names matter.
pub fn display_name(e: &Expr) -> String {
    match e {
        Expr::Col(c) => c.clone(),
        e => e.sql(),
    }
}

#[derive(Clone, Debug, Default)]
struct Acc {
    count: i64,
    sum_i: i128,
    sum_f: f64,
    sum_abs: f64,
    is_float: bool,
    min: Option<Cell>,
    max: Option<Cell>,
}

fn eval_agg_expr(e: &Expr, accs: &BTreeMap<String, Acc>, group_row: Row) -> Result<Cell, EvalErr> {
    match e {
        Expr::Agg(kind, inner) => {
            let acc = &accs[&e.sql()];
            let _ = inner;
            Ok(match kind {
                AggKind::Count => Cell::Int(acc.count),
                AggKind::Sum => {
                    if acc.count == 0 {
                        Cell::Null
                    } else if acc.is_float {
                        Cell::float(acc.sum_f)
                    } else {
                        fit(acc.sum_i)?
                    }
                }
                AggKind::Min => acc.min.clone().unwrap_or(Cell::Null),
                AggKind::Max => acc.max.clone().unwrap_or(Cell::Null),
                AggKind::Avg => {
                    if acc.count == 0 {
                        Cell::Null
                    } else if acc.is_float {
                        return Err(EvalErr::Type("avg(float)".into()));
                    } else {
                        let s = fit(acc.sum_i)?;
                        match s {
                            Cell::Int(s) => Cell::Int(s / acc.count),
                            _ => unreachable!(),
                        }
                    }
                }
            })
        }
        Expr::Bin(op, a, b) if op.is_arith() => {
            let x = eval_agg_expr(a, accs, group_row)?;
            let y = eval_agg_expr(b, accs, group_row)?;
            let mut tmp = BTreeMap::new();
            tmp.insert("x".to_string(), x);
            tmp.insert("y".to_string(), y);
            eval(&bin(*op, col("x"), col("y")), &tmp)
        }
        e if !e.has_agg() => eval(e, group_row),
        _ => Err(EvalErr::Type("unsupported aggregate expression".into())),
    }
}

fn collect_aggs(e: &Expr, out: &mut Vec<Expr>) {
    match e {
        Expr::Agg(..) => {
            if !out.contains(e) {
                out.push(e.clone())
            }
        }
        Expr::Bin(_, a, b) => {
            collect_aggs(a, out);
            collect_aggs(b, out);
        }
        _ => {}
    }
}

/// Runs a query over rows (in table order).
pub fn run(q: &Query, rows: &[BTreeMap<String, Cell>]) -> Result<Expected, EvalErr> {
    run_sem(q, rows, false)
}

pub fn run_sem(q: &Query, rows: &[BTreeMap<String, Cell>], strict: bool) -> Result<Expected, EvalErr> {
    let colnames: Vec<String> = q.select.iter().map(colname_of).collect();
    let mut overflow_possible = false;
    let mut kept: Vec<usize> = vec![];
    for (i, r) in rows.iter().enumerate() {
        if keeps_sem(&q.filter, r, strict)? {
            kept.push(i);
        }
    }
    if !q.is_aggregate() {
        // Would a filtered-out row overflow in a select/order expression?
        for (i, r) in rows.iter().enumerate() {
            if kept.binary_search(&i).is_err() {
                for it in &q.select {
                    if let Err(EvalErr::Overflow) = eval(&it.expr, r) {
                        overflow_possible = true;
                    }
                }
            }
        }
        let desc: Vec<bool> = q.order_by.iter().map(|x| x.1).collect();
        let mut items: Vec<(usize, Vec<Cell>, Vec<Cell>)> = vec![];
        for &i in &kept {
            let r = &rows[i];
            let mut out = vec![];
            for it in &q.select {
                out.push(eval(&it.expr, r)?);
            }
            let mut key = vec![];
            for (e, _) in &q.order_by {
                key.push(eval(e, r)?);
            }
            items.push((i, out, key));
        }
        if !q.order_by.is_empty() {
            items.sort_by(|a, b| order_keys(&a.2, &b.2, &desc));
        }
        let off = q.offset.unwrap_or(0) as usize;
        let lim = q.limit.map(|l| l as usize).unwrap_or(usize::MAX);
        let sliced: Vec<_> = items.into_iter().skip(off).take(lim).collect();
        return Ok(Expected {
            colnames,
            source: sliced.iter().map(|x| x.0).collect(),
            rows: sliced.iter().map(|x| x.1.clone()).collect(),
            keys: sliced.iter().map(|x| x.2.clone()).collect(),
            overflow_possible,
            float_sum_scale: BTreeMap::new(),
        });
    }

    // Aggregation: group by the non-aggregate select items.
    let group_exprs: Vec<&Expr> = q.select.iter().map(|i| &i.expr).filter(|e| !e.has_agg()).collect();
    let mut aggs: Vec<Expr> = vec![];
    for it in &q.select {
        collect_aggs(&it.expr, &mut aggs);
    }
    for (e, _) in &q.order_by {
        collect_aggs(e, &mut aggs);
    }
    // group key -> (representative row of group-expression values, accumulators)
    let mut groups: Vec<(Vec<Cell>, BTreeMap<String, Cell>, BTreeMap<String, Acc>)> = vec![];
    let mut index: BTreeMap<Vec<Cell>, usize> = BTreeMap::new();
    for &i in &kept {
        let r = &rows[i];
        let mut key = vec![];
        for g in &group_exprs {
            key.push(canon_key(&eval(g, r)?));
        }
        let gi = *index.entry(key.clone()).or_insert_with(|| {
            let mut gr = BTreeMap::new();
            for (g, k) in group_exprs.iter().zip(key.iter()) {
                gr.insert(g.sql(), k.clone());
            }
            groups.push((key.clone(), gr, BTreeMap::new()));
            groups.len() - 1
        });
        for a in &aggs {
            if let Expr::Agg(kind, inner) = a {
                let acc = groups[gi].2.entry(a.sql()).or_default();
                let v = match eval(inner, r) {
                    Ok(v) => v,
                    Err(EvalErr::Overflow) => return Err(EvalErr::Overflow),
                    Err(e) => return Err(e),
                };
                match (&v, kind) {
                    (Cell::Null, _) => {}
                    (_, AggKind::Count) => acc.count += 1,
                    (Cell::Int(x), _) => {
                        acc.count += 1;
                        acc.sum_i += *x as i128;
                        if acc.min.as_ref().map(|m| order_cells(&v, m) == Ordering::Less).unwrap_or(true) {
                            acc.min = Some(v.clone());
                        }
                        if acc.max.as_ref().map(|m| order_cells(&v, m) == Ordering::Greater).unwrap_or(true) {
                            acc.max = Some(v.clone());
                        }
                    }
                    (Cell::Float(x), _) => {
                        acc.count += 1;
                        acc.is_float = true;
                        acc.sum_f += x.get();
                        acc.sum_abs += x.get().abs();
                        if acc.min.as_ref().map(|m| order_cells(&v, m) == Ordering::Less).unwrap_or(true) {
                            acc.min = Some(v.clone());
                        }
                        if acc.max.as_ref().map(|m| order_cells(&v, m) == Ordering::Greater).unwrap_or(true) {
                            acc.max = Some(v.clone());
                        }
                    }
                    (x, _) => return Err(EvalErr::Type(format!("aggregate over {:?}", x))),
                }
            }
        }
    }
    // accumulators for groups that saw no value still need entries
    for g in groups.iter_mut() {
        for a in &aggs {
            g.2.entry(a.sql()).or_default();
        }
    }
    let mut out_rows: Vec<(Vec<Cell>, Vec<Cell>)> = vec![];
    let mut scales = vec![];
    for (_, gr, accs) in &groups {
        // evaluate non-aggregate items from the stored key values
        let mut row = vec![];
        let mut scale_row = vec![];
        for it in &q.select {
            let v = if it.expr.has_agg() {
                eval_agg_expr(&it.expr, accs, &BTreeMap::new())?
            } else {
                gr[&it.expr.sql()].clone()
            };
            let sc = match &it.expr {
                Expr::Agg(AggKind::Sum, _) => {
                    let a = &accs[&it.expr.sql()];
                    if a.is_float {
                        Some((a.sum_abs, a.count as usize))
                    } else {
                        None
                    }
                }
                _ => None,
            };
            scale_row.push(sc);
            row.push(v);
        }
        let mut key = vec![];
        for (e, _) in &q.order_by {
            let v = if e.has_agg() {
                eval_agg_expr(e, accs, &BTreeMap::new())?
            } else {
                match gr.get(&e.sql()) {
                    Some(v) => v.clone(),
                    None => return Err(EvalErr::Type("ORDER BY expression not in select list".into())),
                }
            };
            key.push(v);
        }
        out_rows.push((row, key));
        scales.push(scale_row);
    }
    // Reference order of groups: by key (engine order is unspecified without ORDER BY).
    let desc: Vec<bool> = q.order_by.iter().map(|x| x.1).collect();
    let mut order: Vec<usize> = (0..out_rows.len()).collect();
    if !q.order_by.is_empty() {
        order.sort_by(|&a, &b| order_keys(&out_rows[a].1, &out_rows[b].1, &desc));
    }
    let off = q.offset.unwrap_or(0) as usize;
    let lim = q.limit.map(|l| l as usize).unwrap_or(usize::MAX);
    let order: Vec<usize> = order.into_iter().skip(off).take(lim).collect();
    let mut float_sum_scale = BTreeMap::new();
    for (ri, &gi) in order.iter().enumerate() {
        for (ci, sc) in scales[gi].iter().enumerate() {
            if let Some(sc) = sc {
                float_sum_scale.insert((ri, ci), *sc);
            }
        }
    }
    Ok(Expected {
        colnames,
        rows: order.iter().map(|&i| out_rows[i].0.clone()).collect(),
        keys: order.iter().map(|&i| out_rows[i].1.clone()).collect(),
        overflow_possible,
        float_sum_scale,
        source: vec![],
    })
}

/// Table rows from a column map.
pub fn rows_of(cols: &BTreeMap<String, Vec<Cell>>, n: usize) -> Vec<BTreeMap<String, Cell>> {
    (0..n)
        .map(|i| cols.iter().map(|(k, v)| (k.clone(), v[i].clone())).collect())
        .collect()
}

/// Cell equality as a query result: ints exact, strings exact, floats numeric (-0.0 = 0.0) unless a
/// tolerance applies.
pub fn result_cell_eq(exp: &Cell, got: &Cell, tol: Option<(f64, usize)>) -> bool {
    match (exp, got) {
        (Cell::Float(a), Cell::Float(b)) => {
            let (a, b) = (a.get(), b.get());
            if a == b || (a.is_nan() && b.is_nan()) {
                return true;
            }
            match tol {
                Some((sum_abs, n)) => {
                    let eps = 2.0 * (n as f64 + 1.0) * f64::EPSILON * sum_abs;
                    (a - b).abs() <= eps
                }
                None => false,
            }
        }
        // i64::MAX is the engine's in-band NULL marker for integers and outside the value domain: a computed
        // result that equals it may read as NULL (the same convention as in the C06 oracle)
        (Cell::Int(i64::MAX), Cell::Null) => true,
        _ => exp == got,
    }
}
