//! Thin wrapper around a LocustDB instance: every call runs on its own thread under a deadline,
//! panics anywhere in the process are recorded, and closing waits for the instance's flush thread.

use std::collections::HashMap;
use std::path::{Path, PathBuf};
use std::sync::atomic::{AtomicBool, AtomicU64, Ordering};
use std::sync::mpsc;
use std::sync::{Arc, Condvar, Mutex};
use std::time::{Duration, Instant};

use locustdb::{BasicTypeColumn, LocustDB, Options, QueryError, QueryOutput, Value};
use locustdb_serialization::event_buffer::EventBuffer;
use serde::{Deserialize, Serialize};

use crate::model::{Cell, FBits};

// ---------------------------------------------------------------------------------------------
// Panic log
// ---------------------------------------------------------------------------------------------

#[derive(Clone, Debug, Serialize, Deserialize, PartialEq)]
pub struct PanicRecord {
    pub thread: String,
    pub file: String,
    pub line: u32,
    pub message: String,
}

impl PanicRecord {
    pub fn short(&self) -> String {
        let mut m = self.message.clone();
        if m.len() > 160 {
            let mut cut = 160;
            while !m.is_char_boundary(cut) {
                cut -= 1;
            }
            m.truncate(cut);
        }
        format!("[{}] {}:{} {}", self.thread, self.file, self.line, m)
    }
    /// True if the panic happened on a thread the harness did not create, i.e. a database thread.
    pub fn in_db_thread(&self) -> bool {
        !self.thread.starts_with("vh-")
    }
}

lazy_static::lazy_static! {
    static ref PANICS: Mutex<Vec<PanicRecord>> = Mutex::new(Vec::new());
}
static QUIET: AtomicBool = AtomicBool::new(true);

pub fn install_panic_hook() {
    std::panic::set_hook(Box::new(|info| {
        let thread = std::thread::current();
        let name = thread.name().unwrap_or("<unnamed>").to_string();
        let (file, line) = info
            .location()
            .map(|l| (l.file().to_string(), l.line()))
            .unwrap_or_default();
        let message = if let Some(s) = info.payload().downcast_ref::<&str>() {
            s.to_string()
        } else if let Some(s) = info.payload().downcast_ref::<String>() {
            s.clone()
        } else {
            "<non-string panic payload>".to_string()
        };
        let file = file
            .strip_prefix("/repo/")
            .map(|s| s.to_string())
            .unwrap_or(file);
        if !QUIET.load(Ordering::Relaxed) {
            eprintln!("panic [{}] {}:{} {}", name, file, line, message);
            if std::env::var("VERIF_BT").is_ok() {
                eprintln!("{}", std::backtrace::Backtrace::force_capture());
            }
        }
        // try_lock: never deadlock inside the hook
        if let Ok(mut p) = PANICS.lock() {
            if p.len() < 1000 {
                p.push(PanicRecord { thread: name, file, line, message });
            }
        }
    }));
}

pub fn set_quiet(q: bool) {
    QUIET.store(q, Ordering::Relaxed);
}

pub fn clear_panics() {
    PANICS.lock().unwrap().clear();
}

pub fn panics() -> Vec<PanicRecord> {
    PANICS.lock().unwrap().clone()
}

pub fn db_panics() -> Vec<PanicRecord> {
    panics().into_iter().filter(|p| p.in_db_thread()).collect()
}

// ---------------------------------------------------------------------------------------------
// Sync point registry (hook H2)
// ---------------------------------------------------------------------------------------------

#[derive(Default)]
struct SyncState {
    /// (instance, label) -> number of times reached
    seen: HashMap<(usize, String), u64>,
    /// labels at which the reaching thread must park: (instance (0 = any), label) -> remaining hits to skip
    park_at: HashMap<(usize, String), u64>,
    /// currently parked: (instance, label)
    parked: Vec<(usize, String, String)>,
    release: u64,
    log: Vec<(usize, String, String)>,
    log_enabled: bool,
}

lazy_static::lazy_static! {
    static ref SYNC: (Mutex<SyncState>, Condvar) = (Mutex::new(SyncState::default()), Condvar::new());
}

pub fn install_sync_hook() {
    locustdb::verif::sync::set(Some(Arc::new(|label: &str, instance: usize, detail: &str| {
        let (m, cv) = &*SYNC;
        let mut st = m.lock().unwrap();
        *st.seen.entry((instance, label.to_string())).or_insert(0) += 1;
        if st.log_enabled && st.log.len() < 100_000 {
            st.log.push((instance, label.to_string(), detail.to_string()));
        }
        let keys = [(instance, label.to_string()), (0usize, label.to_string())];
        let mut park = false;
        for k in keys.iter() {
            if let Some(skip) = st.park_at.get_mut(k) {
                if *skip == 0 {
                    st.park_at.remove(k);
                    park = true;
                } else {
                    *skip -= 1;
                }
                break;
            }
        }
        cv.notify_all();
        if park {
            let my_release = st.release;
            st.parked.push((instance, label.to_string(), detail.to_string()));
            cv.notify_all();
            // Park until released; bounded so that an abandoned case cannot wedge a thread for ever.
            let deadline = Instant::now() + Duration::from_secs(120);
            while st.release == my_release {
                let now = Instant::now();
                if now >= deadline {
                    break;
                }
                let (g, _) = cv.wait_timeout(st, deadline - now).unwrap();
                st = g;
            }
            st.parked.retain(|p| !(p.0 == instance && p.1 == label));
            cv.notify_all();
        }
    })));
}

pub fn sync_reset() {
    let (m, cv) = &*SYNC;
    let mut st = m.lock().unwrap();
    st.park_at.clear();
    st.release += 1;
    st.seen.clear();
    st.log.clear();
    st.log_enabled = false;
    cv.notify_all();
}

/// Forget everything recorded for a closed instance: a later instance may be allocated at the same address.
pub fn sync_forget(instance: usize) {
    let (m, _) = &*SYNC;
    let mut st = m.lock().unwrap();
    st.seen.retain(|k, _| k.0 != instance);
    st.park_at.retain(|k, _| k.0 != instance);
}

pub fn sync_log_enable(on: bool) {
    SYNC.0.lock().unwrap().log_enabled = on;
}

pub fn sync_log() -> Vec<(usize, String, String)> {
    SYNC.0.lock().unwrap().log.clone()
}

/// Ask the next thread of `instance` that reaches `label` (after skipping `skip` hits) to park.
pub fn sync_park_at(instance: usize, label: &str, skip: u64) {
    SYNC.0.lock().unwrap().park_at.insert((instance, label.to_string()), skip);
}

/// Wait until some thread is parked at `label`. Returns false on timeout.
pub fn sync_wait_parked(instance: usize, label: &str, timeout: Duration) -> bool {
    let (m, cv) = &*SYNC;
    let deadline = Instant::now() + timeout;
    let mut st = m.lock().unwrap();
    loop {
        if st.parked.iter().any(|p| (instance == 0 || p.0 == instance) && p.1 == label) {
            return true;
        }
        let now = Instant::now();
        if now >= deadline {
            return false;
        }
        let (g, _) = cv.wait_timeout(st, deadline - now).unwrap();
        st = g;
    }
}

pub fn sync_release_all() {
    let (m, cv) = &*SYNC;
    let mut st = m.lock().unwrap();
    st.park_at.clear();
    st.release += 1;
    cv.notify_all();
}

pub fn sync_seen(instance: usize, label: &str) -> u64 {
    *SYNC.0.lock().unwrap().seen.get(&(instance, label.to_string())).unwrap_or(&0)
}

pub fn sync_wait_seen(instance: usize, label: &str, at_least: u64, timeout: Duration) -> bool {
    let (m, cv) = &*SYNC;
    let deadline = Instant::now() + timeout;
    let mut st = m.lock().unwrap();
    loop {
        if *st.seen.get(&(instance, label.to_string())).unwrap_or(&0) >= at_least {
            return true;
        }
        let now = Instant::now();
        if now >= deadline {
            return false;
        }
        let (g, _) = cv.wait_timeout(st, deadline - now).unwrap();
        st = g;
    }
}

// ---------------------------------------------------------------------------------------------
// Options
// ---------------------------------------------------------------------------------------------

#[derive(Clone, Debug, Serialize, Deserialize, PartialEq)]
pub struct DbOpts {
    pub threads: usize,
    pub read_threads: usize,
    pub mem_lz4: bool,
    pub max_wal_size_bytes: u64,
    pub max_wal_files: usize,
    pub max_partition_size_bytes: u64,
    pub partition_combine_factor: u64,
    pub batch_size: usize,
    pub wal_flush_compaction_threads: usize,
    pub io_threads: usize,
}

impl Default for DbOpts {
    fn default() -> Self {
        DbOpts {
            threads: 2,
            read_threads: 2,
            mem_lz4: true,
            max_wal_size_bytes: 64 * 1024 * 1024,
            max_wal_files: 1000,
            max_partition_size_bytes: 8 * 1024 * 1024,
            partition_combine_factor: 4,
            batch_size: 1024,
            wal_flush_compaction_threads: 1,
            io_threads: 1,
        }
    }
}

impl DbOpts {
    pub fn to_options(&self, path: Option<&Path>) -> Options {
        Options {
            threads: self.threads,
            read_threads: self.read_threads,
            db_path: path.map(|p| p.to_path_buf()),
            mem_lz4: self.mem_lz4,
            max_wal_size_bytes: self.max_wal_size_bytes,
            max_wal_files: self.max_wal_files,
            max_partition_size_bytes: self.max_partition_size_bytes,
            partition_combine_factor: self.partition_combine_factor,
            batch_size: self.batch_size,
            wal_flush_compaction_threads: self.wal_flush_compaction_threads,
            io_threads: self.io_threads,
            // Determinism: no _metrics table ingested behind the model's back.
            metrics_table_name: None,
            ..Options::default()
        }
    }
}

// ---------------------------------------------------------------------------------------------
// Call outcomes
// ---------------------------------------------------------------------------------------------

#[derive(Clone, Debug, Serialize, Deserialize, PartialEq)]
pub enum Fault {
    /// The call panicked in the calling thread.
    CallerPanic(PanicRecord),
    /// The call did not return within the deadline. `db_panics` lists database-thread panics seen.
    Hang { what: String, db_panics: Vec<PanicRecord>, quiescent: bool },
}

impl Fault {
    pub fn short(&self) -> String {
        match self {
            Fault::CallerPanic(p) => format!("caller panic {}", p.short()),
            Fault::Hang { what, db_panics, quiescent } => format!(
                "{} did not return (quiescent={}, db thread panics: [{}])",
                what,
                quiescent,
                db_panics.iter().map(|p| p.short()).collect::<Vec<_>>().join("; ")
            ),
        }
    }
    /// file + message prefix of the panic that explains this fault, if any.
    pub fn panic_site(&self) -> Option<&PanicRecord> {
        match self {
            Fault::CallerPanic(p) => Some(p),
            Fault::Hang { db_panics, .. } => db_panics.first(),
        }
    }
}

pub type Call<T> = Result<T, Fault>;

static CALL_DEADLINE_MS: AtomicU64 = AtomicU64::new(20_000);

pub fn set_call_deadline(d: Duration) {
    CALL_DEADLINE_MS.store(d.as_millis() as u64, Ordering::Relaxed);
}

pub fn call_deadline() -> Duration {
    Duration::from_millis(CALL_DEADLINE_MS.load(Ordering::Relaxed))
}

/// CPU time (utime+stime, clock ticks) of all threads of this process.
fn process_cpu_ticks() -> u64 {
    let mut total = 0;
    if let Ok(rd) = std::fs::read_dir("/proc/self/task") {
        for e in rd.flatten() {
            if let Ok(s) = std::fs::read_to_string(e.path().join("stat")) {
                if let Some(pos) = s.rfind(')') {
                    let fields: Vec<&str> = s[pos + 1..].split_whitespace().collect();
                    if fields.len() > 13 {
                        total += fields[11].parse::<u64>().unwrap_or(0);
                        total += fields[12].parse::<u64>().unwrap_or(0);
                    }
                }
            }
        }
    }
    total
}

/// Runs `f` on a fresh harness thread; waits at most `deadline`.
pub fn with_deadline<T: Send + 'static, F: FnOnce() -> T + Send + 'static>(
    what: &str,
    deadline: Duration,
    f: F,
) -> Call<T> {
    let (tx, rx) = mpsc::channel();
    let before = panics().len();
    std::thread::Builder::new()
        .name("vh-call".to_string())
        .stack_size(16 << 20)
        .spawn(move || {
            let r = std::panic::catch_unwind(std::panic::AssertUnwindSafe(f));
            let _ = tx.send(r.ok());
        })
        .expect("spawn");
    // Poll so that a call which can no longer return (a database thread panicked and nothing is
    // running any more) is recognised after a short grace period instead of the full deadline.
    let started = Instant::now();
    let db_panics_before = db_panics().len();
    let mut panic_seen_at: Option<Instant> = None;
    let received = loop {
        match rx.recv_timeout(Duration::from_millis(20)) {
            Ok(v) => break Ok(v),
            Err(mpsc::RecvTimeoutError::Disconnected) => break Err(()),
            Err(mpsc::RecvTimeoutError::Timeout) => {
                if started.elapsed() >= deadline {
                    break Err(());
                }
                if db_panics().len() > db_panics_before {
                    match panic_seen_at {
                        None => panic_seen_at = Some(Instant::now()),
                        Some(t) if t.elapsed() > Duration::from_millis(1200) => break Err(()),
                        _ => {}
                    }
                }
            }
        }
    };
    match received {
        Ok(Some(v)) => Ok(v),
        Ok(None) => {
            let all = panics();
            let rec = all[before.min(all.len())..]
                .iter()
                .rev()
                .find(|p| p.thread == "vh-call")
                .cloned()
                .unwrap_or(PanicRecord {
                    thread: "vh-call".into(),
                    file: "?".into(),
                    line: 0,
                    message: "panic".into(),
                });
            Err(Fault::CallerPanic(rec))
        }
        Err(()) => {
            if let Ok(dir) = std::env::var("VERIF_HANG_DUMP") {
                // developer aid: thread stacks of this process at the moment a call is given up
                let pid = std::process::id();
                let out = format!("{}/hang-{}-{}.txt", dir, pid, what.replace(|c: char| !c.is_ascii_alphanumeric(), "_"));
                let _ = std::process::Command::new("gdb").args(["-p", &pid.to_string(), "-batch", "-ex", "thread apply all bt 14"]).stdout(std::fs::File::create(&out).unwrap()).stderr(std::process::Stdio::null()).status();
            }
            // Quiescence test: is anything still making progress?
            let t0 = process_cpu_ticks();
            std::thread::sleep(Duration::from_millis(800));
            let t1 = process_cpu_ticks();
            // 100 ticks/s; < 5% of one core over 0.8 s = < 4 ticks
            let quiescent = t1.saturating_sub(t0) < 4;
            Err(Fault::Hang { what: what.to_string(), db_panics: db_panics(), quiescent })
        }
    }
}

// ---------------------------------------------------------------------------------------------
// Query results in model terms
// ---------------------------------------------------------------------------------------------

#[derive(Clone, Debug, Serialize, Deserialize, PartialEq)]
pub enum QErr {
    Parse(String),
    Type(String),
    NotImplemented(String),
    Overflow,
    Fatal(String),
    Canceled,
    Syntax(String),
}

impl QErr {
    pub fn from(e: &QueryError) -> QErr {
        match e {
            QueryError::ParseError(s) => QErr::Parse(s.clone()),
            QueryError::TypeError(s) => QErr::Type(s.clone()),
            QueryError::NotImplemented(s) => QErr::NotImplemented(s.clone()),
            QueryError::Overflow => QErr::Overflow,
            QueryError::FatalError(s, _) => QErr::Fatal(s.clone()),
            QueryError::Canceled { .. } => QErr::Canceled,
            QueryError::SytaxErrorCharsRemaining(s) => QErr::Syntax(s.clone()),
            QueryError::SyntaxErrorBytesRemaining(b) => QErr::Syntax(format!("{:?}", b)),
        }
    }
    /// The engine declined the query (allowed outside the typed fragment).
    pub fn is_decline(&self) -> bool {
        matches!(self, QErr::Parse(_) | QErr::Type(_) | QErr::NotImplemented(_) | QErr::Syntax(_))
    }
    pub fn short(&self) -> String {
        let s = format!("{:?}", self);
        if s.len() > 900 {
            let mut cut = 900;
            while !s.is_char_boundary(cut) {
                cut -= 1;
            }
            s[..cut].to_string()
        } else {
            s
        }
    }
}

#[derive(Clone, Debug, Serialize, Deserialize, PartialEq)]
pub struct QOut {
    pub colnames: Vec<String>,
    /// Row view (present when requested).
    pub rows: Option<Vec<Vec<Cell>>>,
    /// Column view: (name, kind, cells)
    pub columns: Vec<(String, String, Vec<Cell>)>,
}

pub fn value_to_cell(v: &Value) -> Cell {
    match v {
        Value::Int(i) => Cell::Int(*i),
        Value::Float(f) => Cell::Float(FBits::of(f.0)),
        Value::Str(s) => Cell::Str(s.clone()),
        Value::Null => Cell::Null,
    }
}

impl QOut {
    pub fn from(o: &QueryOutput) -> QOut {
        let rows = o
            .rows
            .as_ref()
            .map(|rows| rows.iter().map(|r| r.iter().map(value_to_cell).collect()).collect());
        let columns = o
            .columns
            .iter()
            .map(|(n, c)| {
                let (kind, cells): (&str, Vec<Cell>) = match c {
                    BasicTypeColumn::Int(v) => ("int", v.iter().map(|x| Cell::Int(*x)).collect()),
                    BasicTypeColumn::Float(v) => ("float", v.iter().map(|x| Cell::float(*x)).collect()),
                    BasicTypeColumn::String(v) => {
                        ("string", v.iter().map(|x| Cell::Str(x.clone())).collect())
                    }
                    BasicTypeColumn::Null(n) => ("null", vec![Cell::Null; *n]),
                    BasicTypeColumn::Mixed(v) => ("mixed", v.iter().map(value_to_cell).collect()),
                };
                (n.clone(), kind.to_string(), cells)
            })
            .collect();
        QOut { colnames: o.colnames.clone(), rows, columns }
    }

    /// Rows as seen through the column view.
    pub fn rows_from_columns(&self) -> Vec<Vec<Cell>> {
        let n = self.columns.first().map(|c| c.2.len()).unwrap_or(0);
        (0..n).map(|i| self.columns.iter().map(|c| c.2[i].clone()).collect()).collect()
    }

    /// The row view if present, else the column view.
    pub fn rows_any(&self) -> Vec<Vec<Cell>> {
        match &self.rows {
            Some(r) => r.clone(),
            None => self.rows_from_columns(),
        }
    }
}

pub type QRes = Result<QOut, QErr>;

// ---------------------------------------------------------------------------------------------
// Database handle
// ---------------------------------------------------------------------------------------------

pub struct Db {
    abandoned: bool,
    db: Option<Arc<LocustDB>>,
    pub opts: DbOpts,
    pub path: Option<PathBuf>,
    pub instance: usize,
}

impl Db {
    pub fn open(opts: &DbOpts, path: Option<&Path>) -> Call<Db> {
        let o = opts.to_options(path);
        let db = with_deadline("open", call_deadline(), move || LocustDB::new(&o))?;
        let instance = db.verif_inner().verif_instance();
        Ok(Db {
            abandoned: false,
            db: Some(Arc::new(db)),
            opts: opts.clone(),
            path: path.map(|p| p.to_path_buf()),
            instance,
        })
    }

    pub fn raw(&self) -> &Arc<LocustDB> {
        self.db.as_ref().unwrap()
    }

    pub fn ingest(&self, events: EventBuffer) -> Call<()> {
        let db = self.raw().clone();
        with_deadline("ingest", call_deadline(), move || {
            // `LocustDB::ingest_efficient` is an async fn that only calls this synchronous function;
            // calling it directly avoids nesting executors (it may call block_on internally).
            db.verif_inner().ingest_efficient(events)
        })
    }

    pub fn query_full(&self, sql: &str, rowformat: bool) -> Call<QRes> {
        let db = self.raw().clone();
        let sql = sql.to_string();
        with_deadline("query", call_deadline(), move || {
            let r = futures::executor::block_on(db.run_query(&sql, false, rowformat, vec![]));
            match r {
                Ok(o) => Ok(QOut::from(&o)),
                Err(e) => Err(QErr::from(&e)),
            }
        })
    }

    pub fn query(&self, sql: &str) -> Call<QRes> {
        self.query_full(sql, true)
    }

    /// `LocustDB::search_column_names` (the catalogue accessor the server's /columns endpoint uses).
    pub fn search_column_names(&self, table: &str, pattern: &str) -> Call<Result<Vec<String>, String>> {
        let db = self.raw().clone();
        let (table, pattern) = (table.to_string(), pattern.to_string());
        with_deadline("search_column_names", call_deadline(), move || {
            futures::executor::block_on(db.search_column_names(&table, &pattern)).map_err(|e| e.to_string())
        })
    }

    pub fn flush(&self) -> Call<()> {
        let db = self.raw().clone();
        with_deadline("force_flush", call_deadline(), move || db.force_flush())
    }

    pub fn evict(&self) -> Call<usize> {
        let db = self.raw().clone();
        with_deadline("evict_cache", call_deadline(), move || db.evict_cache())
    }

    /// Drops the instance and waits until its WAL flush thread has exited, so that reopening the
    /// directory is a *clean* restart (no thread of the old instance still writes).
    pub fn close(mut self) -> Call<()> {
        self.close_inner()
    }

    /// Stops an instance that lost a thread to a known finding, without waiting for its flush thread.
    pub fn abandon(mut self) {
        self.abandoned = true;
        let _ = self.close_inner();
    }

    fn close_inner(&mut self) -> Call<()> {
        if let Some(db) = self.db.take() {
            let inner = db.verif_inner().clone();
            let instance = self.instance;
            let on_disk = self.path.is_some() && !self.abandoned;
            drop(db);
            // an abandoned call thread may still hold a clone of the handle, so stop explicitly
            inner.stop();
            inner.verif_wake_wal_thread();
            if on_disk {
                let deadline = Instant::now() + Duration::from_secs(10);
                loop {
                    if sync_seen(instance, "walthread.exit") > 0 {
                        break;
                    }
                    if Instant::now() > deadline {
                        return Err(Fault::Hang {
                            what: "close (flush thread exit)".into(),
                            db_panics: db_panics(),
                            quiescent: true,
                        });
                    }
                    inner.verif_wake_wal_thread();
                    sync_wait_seen(instance, "walthread.exit", 1, Duration::from_millis(20));
                }
                sync_forget(instance);
            }
        }
        Ok(())
    }
}

impl Drop for Db {
    fn drop(&mut self) {
        let _ = self.close_inner();
    }
}

/// Recursive listing of a directory: relative path -> size.
pub fn list_dir(root: &Path) -> Vec<(String, u64)> {
    fn rec(root: &Path, dir: &Path, out: &mut Vec<(String, u64)>) {
        if let Ok(rd) = std::fs::read_dir(dir) {
            for e in rd.flatten() {
                let p = e.path();
                if p.is_dir() {
                    rec(root, &p, out);
                } else {
                    let rel = p.strip_prefix(root).unwrap().to_string_lossy().to_string();
                    let len = e.metadata().map(|m| m.len()).unwrap_or(0);
                    out.push((rel, len));
                }
            }
        }
    }
    let mut out = vec![];
    rec(root, root, &mut out);
    out.sort();
    out
}

/// Temp directory under /dev/shm (fast, no disk wear); removed on drop.
pub fn temp_dir(tag: &str) -> tempfile::TempDir {
    let base = if Path::new("/dev/shm").is_dir() { "/dev/shm" } else { "/tmp" };
    tempfile::Builder::new()
        .prefix(&format!("vh-{}-", tag))
        .tempdir_in(base)
        .expect("tempdir")
}

/// Waits until no WAL flush of `instance` is in progress (flush.begin count == flush.end count).
pub fn wait_flush_idle(instance: usize, timeout: Duration) -> bool {
    let deadline = Instant::now() + timeout;
    loop {
        let b = sync_seen(instance, "flush.begin");
        let e = sync_seen(instance, "flush.end");
        if b == e {
            // stable for a moment?
            std::thread::sleep(Duration::from_millis(2));
            if sync_seen(instance, "flush.begin") == b && sync_seen(instance, "flush.end") == b {
                return true;
            }
        }
        if Instant::now() > deadline {
            return false;
        }
        std::thread::sleep(Duration::from_millis(5));
    }
}
