//! Shard runner: drives proptest from a binary, counts what was generated, matches failures against
//! the known-findings file, shrinks, and reports.

use std::cell::RefCell;
use std::collections::{BTreeMap, BTreeSet};
use std::fmt::Debug;
use std::path::{Path, PathBuf};

use proptest::strategy::Strategy;
use proptest::test_runner::{Config, RngSeed, TestCaseError, TestError, TestRunner};
use serde::de::DeserializeOwned;
use serde::{Deserialize, Serialize};
use serde_json::{json, Value};

use crate::db::{self, Fault, PanicRecord};
use crate::model::{hash_str, splitmix64};

pub const VERIF_ROOT: &str = "/verif";

#[derive(Clone, Copy, Debug, PartialEq, Eq, Serialize, Deserialize)]
pub enum Tier {
    Quick,
    Thorough,
}

impl Tier {
    pub fn name(self) -> &'static str {
        match self {
            Tier::Quick => "quick",
            Tier::Thorough => "thorough",
        }
    }
    pub fn parse(s: &str) -> Option<Tier> {
        match s {
            "quick" => Some(Tier::Quick),
            "thorough" => Some(Tier::Thorough),
            _ => None,
        }
    }
    /// quick → q, thorough → t
    pub fn pick<T>(self, q: T, t: T) -> T {
        match self {
            Tier::Quick => q,
            Tier::Thorough => t,
        }
    }
}

// ---------------------------------------------------------------------------------------------
// Failures
// ---------------------------------------------------------------------------------------------

#[derive(Clone, Debug, Serialize, Deserialize)]
pub struct Failure {
    /// "mismatch" | "panic" | "hang" | "error" | "invalid"
    pub kind: String,
    pub message: String,
    pub panic: Option<PanicRecord>,
    /// Structural tags computed by the property (used by known-finding signatures).
    pub tags: Vec<String>,
    pub observed: Value,
}

impl Failure {
    pub fn mismatch(msg: impl Into<String>) -> Failure {
        Failure { kind: "mismatch".into(), message: msg.into(), panic: None, tags: vec![], observed: Value::Null }
    }
    pub fn error(msg: impl Into<String>) -> Failure {
        Failure { kind: "error".into(), message: msg.into(), panic: None, tags: vec![], observed: Value::Null }
    }
    pub fn from_fault(f: &Fault, ctx: &str) -> Failure {
        match f {
            Fault::CallerPanic(p) => Failure {
                kind: "panic".into(),
                message: format!("{}: {}", ctx, f.short()),
                panic: Some(p.clone()),
                tags: vec!["caller".into()],
                observed: Value::Null,
            },
            Fault::Hang { db_panics, quiescent, .. } => Failure {
                kind: if db_panics.is_empty() { "hang".into() } else { "panic".into() },
                message: format!("{}: {}", ctx, f.short()),
                panic: db_panics.first().cloned(),
                tags: vec![
                    "hang".into(),
                    if *quiescent { "quiescent".into() } else { "busy".into() },
                ],
                observed: Value::Null,
            },
        }
    }
    pub fn db_panic(p: &PanicRecord, ctx: &str) -> Failure {
        Failure {
            kind: "panic".into(),
            message: format!("{}: database thread panicked: {}", ctx, p.short()),
            panic: Some(p.clone()),
            tags: vec!["db_thread".into()],
            observed: Value::Null,
        }
    }
    pub fn tag(mut self, t: impl Into<String>) -> Failure {
        self.tags.push(t.into());
        self
    }
    pub fn observed(mut self, v: Value) -> Failure {
        self.observed = v;
        self
    }
    pub fn is_busy_hang(&self) -> bool {
        self.kind == "hang" && self.tags.iter().any(|t| t == "busy")
    }
}

// ---------------------------------------------------------------------------------------------
// Known findings
// ---------------------------------------------------------------------------------------------

#[derive(Clone, Debug, Serialize, Deserialize, Default)]
pub struct KfMatch {
    /// failure kind ("panic", "mismatch", "hang", "error"); empty = any
    #[serde(default)]
    pub kind: String,
    /// panic site: file suffix
    #[serde(default)]
    pub file: String,
    /// panic message prefix
    #[serde(default)]
    pub msg_prefix: String,
    /// all of these tags must be on the failure
    #[serde(default)]
    pub tags: Vec<String>,
    /// message must contain one of these (empty = no constraint)
    #[serde(default)]
    pub contains_any: Vec<String>,
    /// message must contain all of these
    #[serde(default)]
    pub contains_all: Vec<String>,
}

#[derive(Clone, Debug, Serialize, Deserialize)]
pub struct KnownFinding {
    pub id: String,
    pub properties: Vec<String>,
    pub status: String,
    pub what: String,
    #[serde(default)]
    pub only_with_overflow_checks: bool,
    #[serde(rename = "match")]
    pub matcher: Vec<KfMatch>,
    /// name of the generator predicate that excludes this finding's class by construction
    #[serde(default)]
    pub avoid: String,
    /// replay files (relative to /verif), one per property that reproduces it
    #[serde(default)]
    pub repro: BTreeMap<String, String>,
}

#[derive(Clone, Debug, Serialize, Deserialize, Default)]
pub struct KnownFindings {
    pub findings: Vec<KnownFinding>,
    #[serde(default)]
    pub fixed: Vec<String>,
}

impl KnownFindings {
    pub fn load() -> KnownFindings {
        let p = Path::new(VERIF_ROOT).join("known_findings.json");
        let mut k: KnownFindings = match std::fs::read_to_string(&p) {
            Ok(s) => serde_json::from_str(&s).unwrap_or_else(|e| {
                eprintln!("known_findings.json does not parse: {}", e);
                std::process::exit(2);
            }),
            Err(_) => KnownFindings::default(),
        };
        // Development aid: VERIF_KF_DISABLE=id1,id2 treats those findings as not listed, so that the
        // search reports (and shrinks) them again.
        if let Ok(d) = std::env::var("VERIF_KF_DISABLE") {
            let ids: Vec<&str> = d.split(',').collect();
            k.findings.retain(|f| !ids.contains(&f.id.as_str()));
        }
        k
    }

    pub fn open_for<'a>(&'a self, prop: &'a str) -> impl Iterator<Item = &'a KnownFinding> + 'a {
        self.findings
            .iter()
            .filter(move |f| f.status == "open" && f.properties.iter().any(|p| p == prop))
    }

    /// Is the finding with this id listed as open (for any property)? Generators use this to decide
    /// whether a class must be excluded by construction.
    pub fn active(&self, id: &str) -> bool {
        self.findings.iter().any(|f| f.id == id && f.status == "open")
    }

    pub fn matches(&self, prop: &str, fail: &Failure) -> Option<String> {
        for f in self.open_for(prop) {
            for m in &f.matcher {
                if kf_match(m, fail) {
                    return Some(f.id.clone());
                }
            }
        }
        None
    }
}

fn kf_match(m: &KfMatch, fail: &Failure) -> bool {
    if !m.kind.is_empty() && m.kind != fail.kind {
        return false;
    }
    if !m.file.is_empty() || !m.msg_prefix.is_empty() {
        match &fail.panic {
            Some(p) => {
                if !m.file.is_empty() && !p.file.ends_with(&m.file) {
                    return false;
                }
                if !m.msg_prefix.is_empty() && !p.message.starts_with(&m.msg_prefix) {
                    return false;
                }
            }
            None => return false,
        }
    }
    if !m.tags.iter().all(|t| fail.tags.iter().any(|x| x == t)) {
        return false;
    }
    if !m.contains_all.iter().all(|c| fail.message.contains(c.as_str())) {
        return false;
    }
    if !m.contains_any.is_empty() && !m.contains_any.iter().any(|c| fail.message.contains(c.as_str())) {
        return false;
    }
    true
}

// ---------------------------------------------------------------------------------------------
// Statistics
// ---------------------------------------------------------------------------------------------

#[derive(Clone, Debug, Default, Serialize, Deserialize)]
pub struct Stats {
    pub evaluations: u64,
    pub nontrivial: BTreeSet<u64>,
    pub classes: BTreeMap<String, u64>,
    pub declined: u64,
    pub excluded: BTreeMap<String, u64>,
    pub kf_hits: BTreeMap<String, u64>,
    pub inconclusive: u64,
    pub samples: Vec<Value>,
    pub exhaustive_subspaces: Vec<String>,
    pub notes: Vec<String>,
    /// generated cases that were not evaluated because the shard's soft deadline had passed
    #[serde(default)]
    pub skipped_after_deadline: u64,
}

impl Stats {
    pub fn merge(&mut self, o: &Stats) {
        self.evaluations += o.evaluations;
        self.nontrivial.extend(o.nontrivial.iter().cloned());
        for (k, v) in &o.classes {
            *self.classes.entry(k.clone()).or_insert(0) += v;
        }
        self.declined += o.declined;
        for (k, v) in &o.excluded {
            *self.excluded.entry(k.clone()).or_insert(0) += v;
        }
        for (k, v) in &o.kf_hits {
            *self.kf_hits.entry(k.clone()).or_insert(0) += v;
        }
        self.inconclusive += o.inconclusive;
        self.skipped_after_deadline += o.skipped_after_deadline;
        for s in &o.samples {
            if self.samples.len() < 6 {
                self.samples.push(s.clone());
            }
        }
        for s in &o.exhaustive_subspaces {
            if !self.exhaustive_subspaces.contains(s) {
                self.exhaustive_subspaces.push(s.clone());
            }
        }
        for s in &o.notes {
            if !self.notes.contains(s) && self.notes.len() < 20 {
                self.notes.push(s.clone());
            }
        }
    }
}

/// What a check may record about the case it is looking at.
pub struct CaseEnv<'a> {
    pub kf: &'a KnownFindings,
    pub tier: Tier,
    stats: &'a RefCell<Stats>,
    counting: bool,
    pub replay: bool,
}

impl<'a> CaseEnv<'a> {
    pub fn class(&mut self, name: &str) {
        if self.counting {
            *self.stats.borrow_mut().classes.entry(name.to_string()).or_insert(0) += 1;
        }
    }
    pub fn classes<I: IntoIterator<Item = String>>(&mut self, names: I) {
        for n in names {
            self.class(&n);
        }
    }
    /// Records a distinct non-trivial case, identified by a canonical string.
    pub fn nontrivial(&mut self, canonical: &str) {
        if self.counting {
            self.stats.borrow_mut().nontrivial.insert(hash_str(canonical));
        }
    }
    /// Counts additional evaluations made inside one generated case (e.g. enumerated crash points).
    pub fn add_evaluations(&mut self, n: u64) {
        if self.counting {
            self.stats.borrow_mut().evaluations += n;
        }
    }
    pub fn declined(&mut self) {
        if self.counting {
            self.stats.borrow_mut().declined += 1;
        }
    }
    pub fn excluded(&mut self, kf_id: &str) {
        if self.counting {
            *self.stats.borrow_mut().excluded.entry(kf_id.to_string()).or_insert(0) += 1;
        }
    }
    pub fn inconclusive(&mut self) {
        if self.counting {
            self.stats.borrow_mut().inconclusive += 1;
        }
    }
    pub fn sample(&mut self, v: impl FnOnce() -> Value) {
        if self.counting {
            let mut st = self.stats.borrow_mut();
            // keep the 1st, and a few later ones spread out
            let n = st.evaluations;
            let want = st.samples.len() < 3 && (st.samples.is_empty() || n % 37 == 0);
            if want {
                st.samples.push(v());
            }
        }
    }
    pub fn note(&mut self, s: &str) {
        let mut st = self.stats.borrow_mut();
        if !st.notes.iter().any(|x| x == s) && st.notes.len() < 20 {
            st.notes.push(s.to_string());
        }
    }
    pub fn kf_active(&self, id: &str) -> bool {
        self.kf.active(id)
    }
    /// If `f` matches an open known finding of `prop`, count the hit and return its id: the check can
    /// then carry on with the rest of the case instead of ending it.
    pub fn kf_absorb(&mut self, prop: &str, f: &Failure) -> Option<String> {
        if self.replay {
            // a replayed case reports its failure; the caller decides whether it is a known finding
            return None;
        }
        let id = self.kf.matches(prop, f)?;
        if self.counting {
            *self.stats.borrow_mut().kf_hits.entry(id.clone()).or_insert(0) += 1;
        }
        Some(id)
    }
}

// ---------------------------------------------------------------------------------------------
// Shard context
// ---------------------------------------------------------------------------------------------

#[derive(Clone, Debug, Serialize, Deserialize)]
pub struct FailureReport {
    pub property: String,
    pub sub: String,
    pub case: Value,
    pub failure: Failure,
}

#[derive(Clone, Debug, Serialize, Deserialize, Default)]
pub struct ShardReport {
    pub stats: Stats,
    pub failure: Option<FailureReport>,
}

pub struct Ctx {
    pub prop: String,
    pub tier: Tier,
    pub seed: u64,
    pub shard: usize,
    pub nshards: usize,
    pub kf: KnownFindings,
    pub stats: RefCell<Stats>,
    pub failure: Option<FailureReport>,
    /// After this instant no further generated case is evaluated (the rest is counted as skipped): a time
    /// budget that runs out makes the run shorter, never a failure. Set by the parent from the tier's budget.
    pub soft_deadline: Option<std::time::Instant>,
}

impl Ctx {
    pub fn new(prop: &str, tier: Tier, seed: u64, shard: usize, nshards: usize) -> Ctx {
        Ctx {
            prop: prop.to_string(),
            tier,
            seed,
            shard,
            nshards,
            kf: KnownFindings::load(),
            stats: RefCell::new(Stats::default()),
            failure: None,
            soft_deadline: std::env::var("VERIF_SOFT_DEADLINE_S").ok().and_then(|v| v.parse::<f64>().ok()).map(|s| std::time::Instant::now() + std::time::Duration::from_secs_f64(s)),
        }
    }

    pub fn shard_seed(&self, sub: &str) -> u64 {
        splitmix64(
            self.seed
                ^ splitmix64(hash_str(&self.prop))
                ^ splitmix64(hash_str(sub)).rotate_left(17)
                ^ splitmix64(self.shard as u64).rotate_left(33),
        )
    }

    /// Number of cases this shard should run out of `total` for the whole check.
    pub fn share(&self, total: u32) -> u32 {
        let base = total / self.nshards as u32;
        let extra = if (self.shard as u32) < total % self.nshards as u32 { 1 } else { 0 };
        base + extra
    }

    pub fn env(&self, counting: bool) -> CaseEnv<'_> {
        CaseEnv { kf: &self.kf, tier: self.tier, stats: &self.stats, counting, replay: false }
    }

    /// Generated-input search: runs `cases` cases of `strat` through `check`, shrinks a failure.
    pub fn drive<C, S, F>(&mut self, sub: &str, strat: S, cases: u32, check: F)
    where
        C: Serialize + DeserializeOwned + Debug + Clone,
        S: Strategy<Value = C>,
        F: Fn(&C, &mut CaseEnv) -> Result<(), Failure>,
    {
        if self.failure.is_some() || cases == 0 {
            return;
        }
        let config = Config {
            cases,
            failure_persistence: None,
            rng_seed: RngSeed::Fixed(self.shard_seed(sub)),
            max_shrink_iters: self.tier.pick(400, 2000),
            max_shrink_time: self.tier.pick(120_000, 600_000),
            max_global_rejects: 65536,
            ..Config::default()
        };
        let mut runner = TestRunner::new(config);
        let failed = RefCell::new(false);
        let fails: RefCell<std::collections::HashMap<String, Failure>> = RefCell::new(Default::default());
        let prop = self.prop.clone();
        let result = {
            let stats = &self.stats;
            let kf = &self.kf;
            let tier = self.tier;
            let soft_deadline = self.soft_deadline;
            runner.run(&strat, |case| {
                let counting = !*failed.borrow();
                if counting {
                    if let Some(d) = soft_deadline {
                        if std::time::Instant::now() > d {
                            stats.borrow_mut().skipped_after_deadline += 1;
                            return Ok(());
                        }
                    }
                    stats.borrow_mut().evaluations += 1;
                }
                let mut env = CaseEnv { kf, tier, stats, counting, replay: false };
                db::clear_panics();
                let mut outcome = check(&case, &mut env);
                if let Err(f) = &outcome {
                    // A panic recorded on a database thread without a failing call may belong to an abandoned
                    // instance of an earlier case (its directory is gone): attribute it only if it repeats.
                    if f.kind == "panic" && f.tags.iter().any(|t| t == "db_thread") && !f.tags.iter().any(|t| t == "hang") {
                        std::thread::sleep(std::time::Duration::from_millis(200));
                        db::clear_panics();
                        let mut env2 = CaseEnv { kf, tier, stats, counting: false, replay: false };
                        let again = check(&case, &mut env2);
                        if again.is_ok() {
                            if counting {
                                let mut st = stats.borrow_mut();
                                st.inconclusive += 1;
                                if st.notes.len() < 8 {
                                    let m: String = f.message.chars().take(300).collect();
                                    st.notes.push(format!("inconclusive (database-thread panic that did not repeat on an immediate re-run of the same case): {}", m));
                                }
                            }
                            outcome = Ok(());
                        } else {
                            outcome = again;
                        }
                    }
                }
                match outcome {
                    Ok(()) => Ok(()),
                    Err(f) => {
                        if f.is_busy_hang() {
                            // Still making progress when the deadline expired: inconclusive, not a violation.
                            env.inconclusive();
                            if counting {
                                let mut st = stats.borrow_mut();
                                if st.notes.len() < 8 {
                                    let m: String = f.message.chars().take(300).collect();
                                    st.notes.push(format!("inconclusive (call still busy at the deadline): {}", m));
                                }
                            }
                            return Ok(());
                        }
                        if let Some(id) = kf.matches(&prop, &f) {
                            if counting {
                                *stats.borrow_mut().kf_hits.entry(id).or_insert(0) += 1;
                            }
                            return Ok(());
                        }
                        if f.kind == "hang" || f.tags.iter().any(|t| t == "hang") {
                            // keep shrinking affordable
                            db::set_call_deadline(std::time::Duration::from_secs(6));
                        }
                        *failed.borrow_mut() = true;
                        let msg = f.message.clone();
                        if let Ok(key) = serde_json::to_string(&case) {
                            fails.borrow_mut().insert(key, f);
                        }
                        Err(TestCaseError::fail(msg))
                    }
                }
            })
        };
        match result {
            Ok(()) => {}
            Err(TestError::Fail(reason, case)) => {
                // The structured failure observed for the minimal case during the search (a case may
                // contain several defects of which a different one surfaces on each run, so it is not re-run).
                let key = serde_json::to_string(&case).unwrap_or_default();
                let failure = match fails.borrow_mut().remove(&key) {
                    Some(f) => f,
                    None => Failure::error(format!("minimal case failed during the search: {}", reason)),
                };
                self.failure = Some(FailureReport {
                    property: self.prop.clone(),
                    sub: sub.to_string(),
                    case: serde_json::to_value(&case).unwrap_or(Value::Null),
                    failure,
                });
            }
            Err(TestError::Abort(reason)) => {
                self.stats
                    .borrow_mut()
                    .notes
                    .push(format!("{}: generator aborted: {}", sub, reason));
            }
        }
    }

    /// Enumerated (non-random) cases: same bookkeeping, no shrinking.
    pub fn enumerate<C, I, F>(&mut self, sub: &str, cases: I, check: F)
    where
        C: Serialize + Debug + Clone,
        I: IntoIterator<Item = C>,
        F: Fn(&C, &mut CaseEnv) -> Result<(), Failure>,
    {
        if self.failure.is_some() {
            return;
        }
        for case in cases {
            if let Some(d) = self.soft_deadline {
                if std::time::Instant::now() > d {
                    self.stats.borrow_mut().skipped_after_deadline += 1;
                    continue;
                }
            }
            self.stats.borrow_mut().evaluations += 1;
            db::clear_panics();
            let mut env = self.env(true);
            if let Err(f) = check(&case, &mut env) {
                if f.is_busy_hang() {
                    env.inconclusive();
                    continue;
                }
                if let Some(id) = self.kf.matches(&self.prop, &f) {
                    *self.stats.borrow_mut().kf_hits.entry(id).or_insert(0) += 1;
                    continue;
                }
                self.failure = Some(FailureReport {
                    property: self.prop.clone(),
                    sub: sub.to_string(),
                    case: serde_json::to_value(&case).unwrap_or(Value::Null),
                    failure: f,
                });
                return;
            }
        }
    }

    pub fn report(self) -> ShardReport {
        ShardReport { stats: self.stats.into_inner(), failure: self.failure }
    }
}

/// Monotone index mapping (shrinks towards 0 without stalling): i in 0..65536 -> 0..len
pub fn pick_idx(i: u16, len: usize) -> usize {
    if len == 0 {
        0
    } else {
        ((i as usize) * len) >> 16
    }
}

pub fn replay_path(prop: &str, case: &Value) -> PathBuf {
    let h = hash_str(&case.to_string());
    Path::new(VERIF_ROOT)
        .join("evidence")
        .join("violations")
        .join(format!("{}-{:016x}.json", prop, h))
}

pub fn write_replay(report: &FailureReport) -> PathBuf {
    let p = replay_path(&report.property, &report.case);
    let _ = std::fs::create_dir_all(p.parent().unwrap());
    let v = json!({
        "property": report.property,
        "sub": report.sub,
        "case": report.case,
        "observed": {
            "kind": report.failure.kind,
            "message": report.failure.message,
            "panic": report.failure.panic,
            "tags": report.failure.tags,
            "detail": report.failure.observed,
        }
    });
    std::fs::write(&p, serde_json::to_string_pretty(&v).unwrap()).expect("write replay");
    p
}
