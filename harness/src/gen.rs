//! Generators for column contents, null patterns, batches and layouts (DESIGN §3.1, §3.2).
//! Every class named in a property's quantifier is a weighted choice here and carries a label.

use std::collections::BTreeMap;

use proptest::collection::vec;
use proptest::prelude::*;
use proptest::strategy::BoxedStrategy;
use serde::{Deserialize, Serialize};

use crate::db::DbOpts;
use crate::model::{Batch, Cell, ColRep, FBits, F64_NULL_BITS, I64_NULL};

#[derive(Clone, Debug, PartialEq, Serialize, Deserialize)]
pub struct GenCol {
    /// content class label, e.g. "int:u8_offset"
    pub class: String,
    /// null pattern label
    pub nulls: String,
    pub cells: Vec<Cell>,
}

#[derive(Clone, Copy, Debug, PartialEq, Eq, Serialize, Deserialize)]
pub enum ColType {
    Int,
    Float,
    Str,
}

/// Row counts with extra weight at bit-map byte boundaries.
pub fn row_count(max: usize) -> BoxedStrategy<usize> {
    let specials: Vec<usize> = [1usize, 2, 3, 7, 8, 9, 15, 16, 17, 31, 32, 33, 63, 64, 65]
        .iter()
        .cloned()
        .filter(|x| *x <= max)
        .collect();
    prop_oneof![
        3 => proptest::sample::select(specials),
        2 => 1..=max.min(12),
        1 => 1..=max,
    ]
    .boxed()
}

fn clamp_reserved(x: i64) -> i64 {
    if x == I64_NULL {
        I64_NULL - 1
    } else {
        x
    }
}

/// Integer column contents of length `n` (no NULLs yet).
pub fn int_values(n: usize, allow_extreme: bool) -> BoxedStrategy<(String, Vec<i64>)> {
    let n1 = n;
    let mut choices: Vec<(u32, BoxedStrategy<(String, Vec<i64>)>)> = vec![
        (3, vec(0i64..=255, n1).prop_map(|v| ("int:u8".to_string(), v)).boxed()),
        (2, vec(0i64..=65535, n1).prop_map(|v| ("int:u16".to_string(), v)).boxed()),
        (2, vec(0i64..=(u32::MAX as i64), n1).prop_map(|v| ("int:u32".to_string(), v)).boxed()),
        (
            3,
            (
                prop_oneof![
                    1 => Just(1000i64),
                    1 => Just(-1000i64),
                    1 => Just(-128i64),
                    1 => Just(1i64 << 40),
                    1 => Just(-(1i64 << 40)),
                    1 => -100_000i64..100_000,
                    // windows that end at the top / start at the bottom of i64 (resolved against the width below)
                    2 => Just(i64::MAX),
                    2 => Just(i64::MIN)
                ],
                prop_oneof![Just(255i64), Just(65535i64), Just(u32::MAX as i64), 1i64..300],
            )
                .prop_flat_map(move |(base, width)| {
                    // i64::MAX is the engine's NULL marker for integers, so the top window ends one below it
                    let base = if base == i64::MAX { i64::MAX - 1 - width } else if base == i64::MIN { i64::MIN + 1 } else { base };
                    vec(0i64..=width, n1).prop_map(move |v| {
                        let cls = if base == i64::MIN + 1 || base == i64::MAX - 1 - width {
                            "int:i64_edge_window"
                        } else if width <= 255 {
                            "int:u8_offset"
                        } else if width <= 65535 {
                            "int:u16_offset"
                        } else {
                            "int:u32_offset"
                        };
                        (cls.to_string(), v.into_iter().map(|x| base + x).collect())
                    })
                })
                .boxed(),
        ),
        (
            2,
            (
                proptest::sample::select(vec![
                    (254i64, 3i64),
                    (65534, 3),
                    ((u32::MAX as i64) - 1, 3),
                    (126, 4),
                    (-2, 5),
                ]),
                any::<bool>(),
            )
                .prop_flat_map(move |((lo, w), with_zero)| {
                    vec(0i64..w, n1).prop_map(move |v| {
                        let mut out: Vec<i64> = v.into_iter().map(|x| lo + x).collect();
                        if with_zero && !out.is_empty() {
                            out[0] = 0;
                        }
                        ("int:width_boundary".to_string(), out)
                    })
                })
                .boxed(),
        ),
        (
            2,
            (0i64..1_000_000, prop_oneof![Just(1i64), 1i64..10, 1i64..1000, 60_000i64..70_000])
                .prop_flat_map(move |(start, maxstep)| {
                    (vec(1i64..=maxstep, n1), vec(0u8..20, n1)).prop_map(move |(steps, dips)| {
                        // > 90 % increasing: an occasional equal/decreasing element
                        let mut cur = start;
                        let mut out = Vec::with_capacity(steps.len());
                        for (s, d) in steps.iter().zip(dips.iter()) {
                            if *d == 0 {
                                cur -= 1;
                            } else {
                                cur += s;
                            }
                            out.push(cur);
                        }
                        ("int:increasing_run".to_string(), out)
                    })
                })
                .boxed(),
        ),
        (
            1,
            prop_oneof![Just(0i64), Just(-1i64), Just(42i64), Just(1i64 << 50), any::<i64>()]
                .prop_map(move |c| ("int:constant".to_string(), vec![clamp_reserved(c); n1]))
                .boxed(),
        ),
        (
            2,
            vec(
                prop_oneof![
                    any::<i64>(),
                    Just(0i64),
                    Just(-1i64),
                    Just(1i64),
                    Just(i64::MAX - 1),
                    Just(i64::MIN + 1)
                ],
                n1,
            )
            .prop_map(|v| {
                (
                    "int:full_i64".to_string(),
                    v.into_iter()
                        .map(|x| if x == i64::MIN { i64::MIN + 1 } else { clamp_reserved(x) })
                        .collect(),
                )
            })
            .boxed(),
        ),
    ];
    if allow_extreme {
        choices.push((
            1,
            vec(
                prop_oneof![
                    Just(i64::MIN),
                    Just(i64::MAX - 1),
                    Just(0i64),
                    Just(-5i64),
                    Just(i64::MIN + 1),
                    any::<i64>()
                ],
                n1,
            )
            .prop_map(|v| {
                ("int:extreme_range".to_string(), v.into_iter().map(clamp_reserved).collect())
            })
            .boxed(),
        ));
        choices.push((
            1,
            (any::<bool>(), vec(0u8..4, n1))
                .prop_map(move |(neg, k)| {
                    // increasing run with steps beyond i64 (delta pre-pass overflow candidates)
                    let mut out = vec![];
                    let mut cur: i128 = if neg { i64::MIN as i128 } else { -(1i128 << 62) };
                    for s in k {
                        out.push(clamp_reserved(cur.clamp(i64::MIN as i128, (i64::MAX - 1) as i128) as i64));
                        cur += (s as i128 + 1) * (1i128 << 61);
                    }
                    ("int:huge_step_run".to_string(), out)
                })
                .boxed(),
        ));
    }
    proptest::strategy::Union::new_weighted(choices).boxed()
}

pub fn special_floats() -> Vec<f64> {
    vec![
        0.0,
        -0.0,
        1.0,
        -1.0,
        0.5,
        1.5,
        f64::MIN_POSITIVE,
        f64::MIN_POSITIVE / 4.0,       // subnormal
        -f64::MIN_POSITIVE / 1024.0,   // negative subnormal
        5e-324,
        f64::MAX,
        f64::MIN,
        f64::INFINITY,
        f64::NEG_INFINITY,
        0.1,                           // not exact in f32
        1.0 / 3.0,
        16777217.0,                    // 2^24+1, not exact in f32
        3.4028234663852886e38,         // f32::MAX
        3.4028235e39,                  // beyond f32 range
        1e-46,                         // below f32 subnormal range
        123456.0,
        -2.5e10,
        1e300,
        -1e-300,
    ]
}

/// Float column contents. `allow_nan`: non-reserved NaN payloads (storage round-trips only).
pub fn float_values(n: usize, allow_nan: bool) -> BoxedStrategy<(String, Vec<f64>)> {
    let sp = special_floats();
    let sp2 = sp.clone();
    let f32_exact = prop_oneof![
        (-1000i32..1000).prop_map(|x| x as f64),
        (-1000i32..1000).prop_map(|x| x as f64 / 8.0),
        any::<f32>().prop_filter("finite", |f| f.is_finite()).prop_map(|f| f as f64),
    ];
    let general = prop_oneof![
        4 => any::<f64>().prop_filter("finite", |f| f.is_finite()),
        2 => (-1_000_000i64..1_000_000).prop_map(|x| x as f64 / 100.0),
        1 => proptest::sample::select(sp.clone()),
    ];
    let mut choices: Vec<(u32, BoxedStrategy<(String, Vec<f64>)>)> = vec![
        (3, vec(f32_exact, n).prop_map(|v| ("float:f32_exact".to_string(), v)).boxed()),
        (3, vec(general, n).prop_map(|v| ("float:general".to_string(), v)).boxed()),
        (
            3,
            vec(proptest::sample::select(sp2), n)
                .prop_map(|v| ("float:special".to_string(), v))
                .boxed(),
        ),
        (
            1,
            (proptest::sample::select(sp.clone()), vec(0u8..5, n))
                .prop_map(|(c, flips)| {
                    (
                        "float:repeats_signflips".to_string(),
                        flips.into_iter().map(|f| if f == 0 { -c } else { c }).collect(),
                    )
                })
                .boxed(),
        ),
    ];
    if allow_nan {
        choices.push((
            1,
            vec(
                prop_oneof![
                    Just(f64::NAN),
                    Just(f64::from_bits(0x7ff8_0000_0000_0001)),
                    Just(f64::from_bits(0xfff8_0000_0000_0000)),
                    Just(f64::from_bits(0x7ff0_0000_0000_0001)),
                    Just(1.0f64),
                    Just(f64::INFINITY)
                ],
                n,
            )
            .prop_map(|v| ("float:nan_payloads".to_string(), v))
            .boxed(),
        ));
    }
    proptest::strategy::Union::new_weighted(choices)
        .prop_map(|(c, v)| {
            (
                c,
                v.into_iter()
                    .map(|f| if f.to_bits() == F64_NULL_BITS { f64::NAN } else { f })
                    .collect(),
            )
        })
        .boxed()
}

fn hex_string(upper: bool) -> BoxedStrategy<String> {
    vec(0u8..16, 3..12)
        .prop_map(move |nibbles| {
            let mut s = String::new();
            for pair in nibbles {
                // even length: two digits per element
                let digits = if upper { b"0123456789ABCDEF" } else { b"0123456789abcdef" };
                s.push(digits[pair as usize] as char);
                s.push(digits[((pair as usize) * 7 + 3) % 16] as char);
            }
            s
        })
        .boxed()
}

pub fn long_string(len: usize) -> String {
    let mut s = String::with_capacity(len);
    for i in 0..len {
        s.push((b'a' + (i % 26) as u8) as char);
    }
    s
}

/// String column contents.
pub fn string_values(n: usize, ascii_only: bool) -> BoxedStrategy<(String, Vec<String>)> {
    let word = prop_oneof![
        3 => "[a-z]{1,8}",
        1 => "[A-Za-z0-9 _%.-]{0,12}",
        1 => Just(String::new()),
    ];
    let unicode = prop_oneof![
        Just("héllo".to_string()),
        Just("日本語".to_string()),
        Just("😀".to_string()),
        Just("a\u{0301}".to_string()),
        Just("ß".to_string()),
        "\\PC{0,6}",
    ];
    let mut choices: Vec<(u32, BoxedStrategy<(String, Vec<String>)>)> = vec![
        // high cardinality: mostly distinct
        (3, vec(word.clone(), n).prop_map(|v| ("str:words".to_string(), v)).boxed()),
        // low cardinality: drawn from a small pool
        (
            3,
            (vec("[a-z]{0,6}", 1..4), vec(any::<u16>(), n))
                .prop_map(|(pool, idx)| {
                    (
                        "str:low_cardinality".to_string(),
                        idx.into_iter()
                            .map(|i| pool[crate::runner::pick_idx(i, pool.len())].clone())
                            .collect(),
                    )
                })
                .boxed(),
        ),
        // cardinality around len/2 (dictionary threshold)
        (
            2,
            (0usize..3, vec(any::<u16>(), n))
                .prop_map(move |(delta, idx)| {
                    let len = idx.len();
                    let card = (len / 2 + delta).saturating_sub(1).max(1);
                    (
                        "str:dict_threshold".to_string(),
                        idx.into_iter()
                            .enumerate()
                            .map(|(k, i)| {
                                // first `card` rows distinct, the rest repeats
                                let j = if k < card { k } else { crate::runner::pick_idx(i, card) };
                                format!("v{:03}", j)
                            })
                            .collect(),
                    )
                })
                .boxed(),
        ),
        (
            2,
            vec(
                prop_oneof![
                    proptest::sample::select(vec![0usize, 1, 254, 255, 256, 257, 509, 510, 511, 512, 765, 766]),
                ],
                n,
            )
            .prop_map(|lens| {
                ("str:length_boundary".to_string(), lens.into_iter().map(long_string).collect())
            })
            .boxed(),
        ),
        (2, vec(hex_string(false), n).prop_map(|v| ("str:lower_hex".to_string(), v)).boxed()),
        (1, vec(hex_string(true), n).prop_map(|v| ("str:upper_hex".to_string(), v)).boxed()),
        (
            1,
            (vec(hex_string(false), n), any::<u16>(), prop_oneof![Just("abc".to_string()), Just("ABCD".to_string()), Just("zz".to_string())])
                .prop_map(|(mut v, at, intruder)| {
                    if !v.is_empty() {
                        let i = crate::runner::pick_idx(at, v.len());
                        v[i] = intruder;
                    }
                    ("str:hex_with_intruder".to_string(), v)
                })
                .boxed(),
        ),
        (1, vec(Just(String::new()), n).prop_map(|v| ("str:all_empty".to_string(), v)).boxed()),
    ];
    if !ascii_only {
        choices.push((2, vec(unicode, n).prop_map(|v| ("str:unicode".to_string(), v)).boxed()));
    }
    proptest::strategy::Union::new_weighted(choices).boxed()
}

/// Null pattern of length n: true = NULL.
pub fn null_pattern(n: usize) -> BoxedStrategy<(String, Vec<bool>)> {
    prop_oneof![
        4 => Just(("nulls:none".to_string(), vec![false; n])),
        1 => Just(("nulls:all".to_string(), vec![true; n])),
        1 => Just(("nulls:first".to_string(), (0..n).map(|i| i == 0).collect())),
        1 => Just(("nulls:last".to_string(), (0..n).map(|i| i + 1 == n).collect())),
        1 => Just(("nulls:all_but_first".to_string(), (0..n).map(|i| i != 0).collect())),
        1 => Just(("nulls:all_but_last".to_string(), (0..n).map(|i| i + 1 != n).collect())),
        1 => any::<bool>().prop_map(move |odd| ("nulls:alternating".to_string(), (0..n).map(|i| (i % 2 == 1) == odd).collect())),
        1 => (0..=n).prop_map(move |k| ("nulls:tail".to_string(), (0..n).map(|i| i >= k).collect())),
        3 => vec(0u8..4, n).prop_map(|v| ("nulls:random".to_string(), v.into_iter().map(|x| x == 0).collect())),
    ]
    .boxed()
}

pub struct ColGenOpts {
    pub allow_extreme_ints: bool,
    pub allow_nan: bool,
    pub ascii_only: bool,
    pub nullable: bool,
}

pub fn typed_column(ty: ColType, n: usize, o: &ColGenOpts) -> BoxedStrategy<GenCol> {
    let vals: BoxedStrategy<(String, Vec<Cell>)> = match ty {
        ColType::Int => int_values(n, o.allow_extreme_ints)
            .prop_map(|(c, v)| (c, v.into_iter().map(Cell::Int).collect()))
            .boxed(),
        ColType::Float => float_values(n, o.allow_nan)
            .prop_map(|(c, v)| (c, v.into_iter().map(Cell::float).collect()))
            .boxed(),
        ColType::Str => string_values(n, o.ascii_only)
            .prop_map(|(c, v)| (c, v.into_iter().map(Cell::Str).collect()))
            .boxed(),
    };
    let nulls: BoxedStrategy<(String, Vec<bool>)> = if o.nullable {
        null_pattern(n)
    } else {
        Just(("nulls:none".to_string(), vec![false; n])).boxed()
    };
    (vals, nulls)
        .prop_map(|((class, cells), (np, mask))| GenCol {
            class,
            nulls: np,
            cells: cells
                .into_iter()
                .zip(mask)
                .map(|(c, m)| if m { Cell::Null } else { c })
                .collect(),
        })
        .boxed()
}

pub fn any_col_type() -> BoxedStrategy<ColType> {
    prop_oneof![Just(ColType::Int), Just(ColType::Float), Just(ColType::Str)].boxed()
}

/// A logical table with type-stable columns.
#[derive(Clone, Debug, PartialEq, Serialize, Deserialize)]
pub struct LogicalTable {
    pub rows: usize,
    /// column name -> (type, cells)
    pub cols: BTreeMap<String, (ColType, Vec<Cell>)>,
    pub classes: Vec<String>,
}

/// Physical layout plan for a logical table (DESIGN §3.2).
#[derive(Clone, Debug, PartialEq, Serialize, Deserialize)]
pub struct Layout {
    /// batch lengths are derived from these cut fractions (monotone mapping, shrinks to one batch)
    pub cuts: Vec<u16>,
    /// per batch: flush after it?
    pub flush_after: Vec<bool>,
    /// representation variant seeds per (batch, column)
    pub rep_seed: u8,
    pub storage: Storage,
    pub opts: DbOpts,
}

#[derive(Clone, Copy, Debug, PartialEq, Eq, Serialize, Deserialize)]
pub enum Storage {
    Memory,
    Disk,
    DiskReopened,
    DiskEvicted,
}

pub fn db_opts() -> BoxedStrategy<DbOpts> {
    (
        prop_oneof![Just(1usize), Just(2), Just(8)],
        any::<bool>(),
        prop_oneof![1 => Just(0u64), 1 => Just(1), 1 => Just(4), 3 => Just(999)],
        prop_oneof![Just(1u64), Just(64), Just(1000), Just(8 * 1024 * 1024)],
        prop_oneof![Just(8usize), Just(16), Just(64), Just(1024)],
        prop_oneof![Just(1usize), Just(4)],
        prop_oneof![Just(1usize), Just(4)],
    )
        .prop_map(|(threads, lz4, pcf, mps, bs, io, wfc)| DbOpts {
            threads,
            read_threads: 2,
            mem_lz4: lz4,
            partition_combine_factor: pcf,
            max_partition_size_bytes: mps,
            batch_size: bs,
            io_threads: io,
            wal_flush_compaction_threads: wfc,
            ..DbOpts::default()
        })
        .boxed()
}

pub fn storage() -> BoxedStrategy<Storage> {
    prop_oneof![
        Just(Storage::Memory),
        Just(Storage::Disk),
        Just(Storage::DiskReopened),
        Just(Storage::DiskEvicted)
    ]
    .boxed()
}

pub fn layout(max_batches: usize) -> BoxedStrategy<Layout> {
    (
        vec(any::<u16>(), 0..max_batches),
        vec(any::<bool>(), max_batches + 1),
        any::<u8>(),
        storage(),
        db_opts(),
    )
        .prop_map(|(cuts, flush_after, rep_seed, storage, opts)| Layout {
            cuts,
            flush_after,
            rep_seed,
            storage,
            opts,
        })
        .boxed()
}

impl Layout {
    pub fn simple() -> Layout {
        Layout {
            cuts: vec![],
            flush_after: vec![false],
            rep_seed: 0,
            storage: Storage::Memory,
            opts: DbOpts::default(),
        }
    }

    /// Row ranges of the batches for a table with `rows` rows.
    pub fn batch_ranges(&self, rows: usize) -> Vec<(usize, usize)> {
        let mut points: Vec<usize> = self
            .cuts
            .iter()
            .map(|c| crate::runner::pick_idx(*c, rows + 1))
            .filter(|p| *p > 0 && *p < rows)
            .collect();
        points.sort();
        points.dedup();
        let mut out = vec![];
        let mut prev = 0;
        for p in points {
            out.push((prev, p));
            prev = p;
        }
        if rows > prev {
            out.push((prev, rows));
        }
        out
    }

    /// Splits a logical table into ingestion batches with concrete representations.
    pub fn batches(&self, t: &LogicalTable) -> Vec<Batch> {
        let mut out = vec![];
        for (bi, (lo, hi)) in self.batch_ranges(t.rows).into_iter().enumerate() {
            let mut cols = BTreeMap::new();
            for (ci, (name, (_, cells))) in t.cols.iter().enumerate() {
                let variant = (self.rep_seed as usize)
                    .wrapping_mul(31)
                    .wrapping_add(bi * 7 + ci * 3) as u8;
                if let Some(rep) = ColRep::for_cells(&cells[lo..hi], variant) {
                    cols.insert(name.clone(), rep);
                }
            }
            if cols.is_empty() {
                // A client cannot express rows without any column; keep one (all-NULL) column.
                if let Some(name) = t.cols.keys().next() {
                    cols.insert(name.clone(), ColRep::Empty);
                }
            }
            out.push(Batch { rows: hi - lo, cols });
        }
        out
    }

    pub fn describe(&self, rows: usize) -> String {
        format!(
            "batches={:?} flush={:?} storage={:?} pcf={} mps={} bs={} thr={} lz4={}",
            self.batch_ranges(rows).iter().map(|r| r.1 - r.0).collect::<Vec<_>>(),
            &self.flush_after[..self.batch_ranges(rows).len().min(self.flush_after.len())],
            self.storage,
            self.opts.partition_combine_factor,
            self.opts.max_partition_size_bytes,
            self.opts.batch_size,
            self.opts.threads,
            self.opts.mem_lz4
        )
    }
}

